"""C15: mutating while iterating never crashes or damages the container.

P: impl, kind, tpl/L/I (trees) or n (leaves), src (what is iterated:
   'iter' | 'iterkeys' | 'iteritems' | 'keys' | 'items' | 'values'),
   pattern: string over  N next(it) / seq[i] step,  I insert,  D delete,
   P pop smallest,  C clear     (the step KINDS are enumerated, one obligation
   per pattern; keys and indices are solver variables)
ks: strictly increasing symbolic stored keys; a: x0.. (keys of I/D steps),
   i0.. (indices of sequence steps)
"""
from engine import shapes
from harness import common
from harness.common import Model, fail, keq, klt, same_keys, same_pairs
from harness import keys as keys_mod
from harness.keys import K
from harness import h_step
from harness.h_step import prestate, contents

LAZY = ('keys', 'items', 'values')


def iter_sched(P, ks, a):
    kind = P['kind']
    n0 = len(shapes.leaf_keys(P['tpl'])) if 'tpl' in P else P['n']
    idx = {}
    j = 0
    for c in P['pattern']:
        if c == 'N' and P['src'] in LAZY:
            # solver-chosen index in [-1, n0]  (quick) or [-n0-2, n0+1] (P['wide'])
            if P.get('wide'):
                idx[j] = common.choose(a['i%d' % j], 2 * n0 + 4) - (n0 + 2)
            else:
                idx[j] = common.choose(a['i%d' % j], n0 + 2) - 1
            j += 1
    with common.untraced():
        _iter_sched(P, ks, a, idx)


def _iter_sched(P, ks, a, idx):
    cl = h_step.classes(P)
    kind = P['kind']
    is_set = kind in ('TreeSet', 'Set')
    is_tree = kind in ('BTree', 'TreeSet')
    src = P['src']
    keys_mod.reset()
    kk = [K(k, i) for i, k in enumerate(ks)]
    t, m, kobj = prestate(P, ks, False, kk)
    ctx = {'harness': 'iter_sched', 'impl': P['impl'], 'kind': kind, 'src': src, 'pattern': P['pattern']}
    ever = list(m.pairs())              # every entry that was in the container at some point
    it = None
    if src == 'iter':
        it = iter(t)
    elif src == 'iterkeys':
        it = t.iterkeys()
    elif src == 'iteritems':
        it = t.iteritems()
    else:
        it = getattr(t, src)()          # lazy sequence (trees) / list (leaves)
    what = 'k' if src in ('iter', 'iterkeys', 'keys') else ('v' if src == 'values' else 'i')
    xi = 0
    ni = 0

    def plausible(g):
        if what == 'k':
            return any(g is k or keq(g, k) for k, _ in ever)
        if what == 'v':
            return any(g is v or g == v for _, v in ever)
        return isinstance(g, tuple) and len(g) == 2 and any((g[0] is k or keq(g[0], k)) and (g[1] is v or g[1] == v) for k, v in ever)

    cleared = [False]

    def stored_now(g):
        now = m.pairs()
        if what == 'k':
            return any(g is k or keq(g, k) for k, _ in now)
        if what == 'v':
            return any(g is v or g == v for _, v in now)
        return any((g[0] is k or keq(g[0], k)) and (g[1] is v or g[1] == v) for k, v in now)

    for c in P['pattern']:
        if c == 'N':
            try:
                if src in LAZY:
                    g = it[idx[ni]]
                    ni += 1
                else:
                    g = next(it)
            except (StopIteration, RuntimeError, IndexError):
                continue
            except Exception as e:      # noqa
                fail('an iteration step raised %s (allowed: an entry, the end, RuntimeError, IndexError)' % type(e).__name__, dict(ctx, step=c))
                continue
            if not plausible(g):
                fail('an iteration step yielded something that was never in the container', dict(ctx, step=c), common.show(g))
            elif P['impl'] == 'c' and is_tree and src in LAZY and not cleared[0] and not stored_now(g):
                # (not after clear(): the sequence keeps the detached, still filled leaves alive and may go on yielding
                # their entries)
                # the C lazy sequence keeps no copy of entries: what it yields is read from a leaf at that moment, so an
                # entry that is not stored NOW came from a slot beyond the leaf's live length (for object keys a
                # reference the leaf has already released)
                fail('a C lazy sequence yielded an entry that is not stored at that moment (read from a dead slot of a leaf)',
                     dict(ctx, step=c), common.show(g))
        else:
            try:
                if c == 'I':
                    x = K(a['x%d' % xi])
                    xi += 1
                    if is_set:
                        t.add(x)
                        m.set(x, None)
                    else:
                        t[x] = 7000 + xi
                        m.set(x, 7000 + xi)
                    ever.append((x, None if is_set else 7000 + xi))
                elif c == 'D':
                    x = K(a['x%d' % xi])
                    xi += 1
                    try:
                        if is_set:
                            t.remove(x)
                        else:
                            del t[x]
                    except KeyError:
                        pass
                    m.delete(x)
                elif c == 'P':
                    try:
                        (t.pop() if is_set else t.popitem())
                    except KeyError:
                        pass
                    if len(m):
                        m.delete(m.keys()[0])
                else:
                    t.clear()
                    m.items = []
                    cleared[0] = True
            except Exception as e:      # noqa
                fail('a mutation raised %s while an iterator / lazy sequence was alive' % type(e).__name__, dict(ctx, step=c))
    # afterwards: sound, and exactly the contents implied by the mutations
    try:
        c_ = contents(t, is_set)
    except Exception as e:              # noqa
        fail('reading the contents afterwards raised %s' % type(e).__name__, ctx)
        return
    if not (same_keys(c_, m.keys()) if is_set else same_pairs(c_, m.pairs())):
        fail('contents afterwards differ from the contents implied by the mutations', ctx, common.show(c_), common.show(m.pairs()))
    if is_tree:
        h_step.sound(t, dict(P, L=None, I=None), cl, 'after iterating and mutating', ctx)
    # the abandoned iterator can still be stepped and dropped
    try:
        if src in LAZY:
            len(it)
            list(it)
        else:
            for _ in range(3):
                next(it)
    except (StopIteration, RuntimeError, IndexError):
        pass
    except Exception as e:              # noqa
        fail('stepping the abandoned iterator raised %s' % type(e).__name__, ctx)
    del it
