"""Mini object database: the documented contract between `persistent` objects
and their data manager, as far as BTrees relies on it (ZODB is not installed).

* Storage: oid -> [(serial, class, state)], states are object graphs in which
  persistent sub-objects are replaced by Ref(oid, class) -- NOT pickles, so
  symbolic key payloads survive a commit / load inside one explored path.
* Jar: a connection with a real persistent.PickleCache.  register(),
  readCurrent(), setstate() are what the real code calls; commit() writes
  exactly the registered objects plus objects newly reachable from their states
  (ZODB's ObjectWriter: new objects get an oid while the referring state is
  serialised and are then serialised themselves), detects write conflicts by
  serial, verifies readCurrent declarations and resolves conflicts by calling
  the class's _p_resolveConflict(old, committed, new) on states whose
  references are Ref objects, one instance per oid per resolution (as
  ZODB.ConflictResolution does with PersistentReference).
* Every call the code under test makes on the jar is logged.
"""
from persistent import Persistent, PickleCache

Z64 = b'\0' * 8
GHOST, UPTODATE, CHANGED, STICKY = -1, 0, 1, 2


class Ref:
    __slots__ = ('oid', 'cls')

    def __init__(self, oid, cls):
        self.oid = oid
        self.cls = cls

    def __repr__(self):
        return 'Ref(%d)' % int.from_bytes(self.oid, 'big')


class ConflictError(Exception):
    pass


class ReadConflictError(ConflictError):
    pass


class Storage:
    def __init__(self):
        self.data = {}
        self.next = 1
        self.tid = 0

    def new_oid(self):
        o = self.next
        self.next += 1
        return o.to_bytes(8, 'big')

    def load(self, oid):
        s, c, st = self.data[oid][-1]
        return c, st, s

    def load_serial(self, oid, serial):
        for s, c, st in self.data[oid]:
            if s == serial:
                return c, st
        raise KeyError(oid)

    def current_serial(self, oid):
        return self.data[oid][-1][0]


def resolve_view(x, table):
    if isinstance(x, tuple):
        return tuple(resolve_view(i, table) for i in x)
    if isinstance(x, Ref):
        return table.setdefault(x.oid, x)
    return x


class Jar:
    def __init__(self, storage, cache_size=100000):
        self.storage = storage
        self.cache = PickleCache(self, cache_size)
        self.registered = []
        self.readcurrent = {}
        self.log = []
        self.added = []

    # ---- what persistent objects call
    def register(self, obj):
        if not any(o is obj for o in self.registered):
            self.registered.append(obj)
        self.log.append(('register', obj._p_oid))

    def readCurrent(self, obj):
        if obj._p_serial != Z64 and obj._p_oid is not None:     # ZODB ignores never-stored objects
            self.readcurrent[obj._p_oid] = obj._p_serial
        self.log.append(('readCurrent', obj._p_oid))

    def setstate(self, obj):
        cls, state, serial = self.storage.load(obj._p_oid)
        self.log.append(('setstate', obj._p_oid))
        obj.__setstate__(self.walk_in(state))
        obj._p_serial = serial

    def oldstate(self, obj, serial):
        return self.walk_in(self.storage.load_serial(obj._p_oid, serial)[1])

    # ---- references
    def walk_in(self, x):
        if isinstance(x, tuple):
            return tuple(self.walk_in(i) for i in x)
        if isinstance(x, Ref):
            return self.get(x.oid, x.cls)
        return x

    def walk_out(self, x, new):
        if isinstance(x, tuple):
            return tuple(self.walk_out(i, new) for i in x)
        if isinstance(x, Persistent):
            if x._p_oid is None:
                x._p_jar = self
                x._p_oid = self.storage.new_oid()
                self.cache[x._p_oid] = x
                new.append(x)
                self.added.append(x)
            return Ref(x._p_oid, type(x))
        return x

    def get(self, oid, cls=None):
        o = self.cache.get(oid)
        if o is not None:
            return o
        if cls is None:
            cls = self.storage.load(oid)[0]
        o = cls.__new__(cls)
        self.cache.new_ghost(oid, o)
        return o

    def add(self, obj):
        obj._p_jar = self
        obj._p_oid = self.storage.new_oid()
        self.cache[obj._p_oid] = obj
        self.registered.append(obj)
        self.added.append(obj)
        return obj._p_oid

    # ---- transaction boundaries
    def commit(self):
        """-> dict(written=[oids], resolved=[oids]); raises ConflictError / ReadConflictError"""
        from BTrees.Interfaces import BTreesConflictError
        st = self.storage
        try:
            mine = [o._p_oid for o in self.registered]
            for oid, serial in self.readcurrent.items():
                if oid in st.data and st.current_serial(oid) != serial and oid not in mine:
                    raise ReadConflictError(oid)
            new_serial = (st.tid + 1).to_bytes(8, 'big')
            todo = list(reversed(self.registered))
            seen, writes, resolved = [], [], []
            while todo:
                obj = todo.pop()
                if any(o is obj for o in seen):
                    continue
                seen.append(obj)
                new = []
                state = self.walk_out(obj.__getstate__(), new)
                oid = obj._p_oid
                if oid in st.data and st.current_serial(oid) != obj._p_serial:
                    table = {}
                    old = resolve_view(st.load_serial(oid, obj._p_serial)[1], table)
                    com = resolve_view(st.data[oid][-1][2], table)
                    new_ = resolve_view(state, table)
                    inst = type(obj).__new__(type(obj))
                    try:
                        state = inst._p_resolveConflict(old, com, new_)
                    except BTreesConflictError as e:
                        raise ConflictError(oid, e.reason)
                    except Exception as e:      # noqa: ZODB treats any failure to resolve as a conflict
                        raise ConflictError(oid, type(e).__name__)
                    resolved.append(obj)
                writes.append((oid, type(obj), state))
                todo.extend(reversed(new))
        except ConflictError:
            self.abort()
            raise
        st.tid += 1
        for oid, cls, state in writes:
            st.data.setdefault(oid, []).append((new_serial, cls, state))
        for obj in seen:
            obj._p_changed = False
            obj._p_serial = new_serial
        for obj in resolved:                     # in-memory state is not the stored one
            obj._p_invalidate()
        self.registered = []
        self.readcurrent = {}
        self.added = []
        return {'written': [w[0] for w in writes], 'resolved': [o._p_oid for o in resolved]}

    def abort(self):
        for obj in self.registered:
            if obj._p_oid in self.storage.data:
                obj._p_invalidate()
        for obj in self.added:
            if obj._p_oid is not None and obj._p_oid not in self.storage.data:
                try:
                    del self.cache[obj._p_oid]
                except Exception:               # noqa
                    pass
                try:
                    del obj._p_jar
                    del obj._p_oid
                except Exception:               # noqa
                    pass
        self.registered = []
        self.readcurrent = {}
        self.added = []

    def minimize(self):
        self.cache.minimize()

    def nodes(self):
        return [o for _, o in self.cache.items()]

    def sticky(self):
        return [o for o in self.nodes() if o._p_state == STICKY]
