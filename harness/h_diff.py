"""C09: the C extension and the pure-Python fallback are interchangeable.

diff_step   the same solver-chosen call with symbolic keys on a C and a Python
            container built from the same shape and the same key objects:
            equal result, exception class, contents and state graph (shape).
diff_types  calls with arguments of every Python type / out-of-range integers
            (solver-chosen selectors into palettes, concrete values) on native
            and object-key families: same outcome class in C and Python.
"""
from engine import shapes
from harness import common
from harness.common import Model, fail, keq, klt, same_keys, same_pairs
from harness import keys as keys_mod
from harness.keys import K
from harness import h_step, h_state
from harness.h_step import prestate, contents, map_op, set_op, VNEW, NOPS


def diff_step(P, ks, a):
    kind = P['kind']
    is_set = kind in ('TreeSet', 'Set')
    nops = NOPS[('set' if is_set else 'map', P['group'])]
    op = common.choose(a['op'], nops)
    with common.untraced():
        _diff_step(P, ks, a, op)


def _diff_step(P, ks, a, op):
    kind = P['kind']
    is_set = kind in ('TreeSet', 'Set')
    keys_mod.reset()
    kk = [K(k, i) for i, k in enumerate(ks)]
    x = K(a['x'])
    y = K(a['y']) if 'y' in a else x
    ctx = {'harness': 'diff_step', 'kind': kind, 'group': P['group'], 'op': op}
    res = {}
    for impl in ('c', 'py'):
        Pi = dict(P, impl=impl)
        t, m, _ = prestate(Pi, ks, False, kk)
        if is_set:
            got, ge, want, we, loose = set_op(t, m, P['group'], op, x, y, 'y' not in a)
        else:
            got, ge, want, we, loose = map_op(t, m, P['group'], op, x, y, VNEW, kind == 'BTree')
        cl = h_step.classes(Pi)
        try:
            c = contents(t, is_set)
        except Exception as e:      # noqa
            fail('reading the contents raised %s (%s)' % (type(e).__name__, impl), ctx)
            return
        res[impl] = (got, ge, c, h_state.norm(t, cl, is_set, {}), loose, t)
    (g1, e1, c1, n1, loose, t1), (g2, e2, c2, n2, _, t2) = res['c'], res['py']
    if e1 != e2:
        fail('C and Python raise different exception classes (%s vs %s)' % (e1, e2), ctx)
    elif e1 is None and P['group'] != 'bulk' and not (is_set and P['group'] == 'write' and op == 2):
        same = (bool(g1) == bool(g2)) if loose else (g1 is g2 or g1 == g2)
        if not same:
            fail('C and Python return different results', ctx, common.show(g1), common.show(g2))
    if not (same_keys(c1, c2) if is_set else same_pairs(c1, c2)):
        fail('C and Python end with different contents', ctx)
    if n1 != n2:
        fail('C and Python end with different shapes / state graphs', ctx)


# ---------------------------------------------------------------------------

class Plain:
    """object with default comparison"""


class Cmp:
    """orderable object of an unrelated type"""
    def __init__(self, v):
        self.v = v

    def __lt__(self, o):
        return isinstance(o, Cmp) and self.v < o.v

    def __eq__(self, o):
        return isinstance(o, Cmp) and self.v == o.v

    def __hash__(self):
        return 1


class Ix:
    """not an int, but usable as an index (operator.index): numpy-style integer scalars behave like this"""
    def __index__(self):
        return 6


def palette(fam_char, wide=True):
    if wide:
        ints = [0, 1, -1, 5, 2 ** 31 - 1, 2 ** 31, -2 ** 31, -2 ** 31 - 1, 2 ** 32 - 1, 2 ** 32, 2 ** 63 - 1, 2 ** 63, -2 ** 63, -2 ** 63 - 1,
                2 ** 64 - 1, 2 ** 64, 2 ** 70, -2 ** 70]
        other = [None, True, False, 1.0, 1.5, float('inf'), float('nan'), 1e40, 'a', '', b'ab', b'abcdef', b'x', (1,), (), [1], Plain(), Plain,
                 Cmp(3), 3 + 0j, Ix()]
    else:
        ints = [5, -1, 2 ** 31 - 1, 2 ** 31, -2 ** 31 - 1, 2 ** 32, 2 ** 63, -2 ** 63 - 1, 2 ** 64, 2 ** 70]
        other = [None, True, 1.5, 1e40, 'a', b'ab', b'abcdef', (1,), Plain(), Cmp(3), Ix()]
    return ints + other


OPS = ['get', 'getitem', 'contains', 'has_key', 'setitem', 'setdefault', 'insert', 'delitem', 'pop', 'pop_default', 'update', 'minKey', 'maxKey',
       'keys_min', 'keys_max', 'ctor', 'setvalue', 'setdefault_value', 'add', 'remove', 'discard']
SET_OPS = ['contains', 'has_key', 'add', 'insert', 'remove', 'discard', 'update', 'minKey', 'maxKey', 'keys_min', 'keys_max', 'ctor']


def run_one(cls, kind, op, arg, base_keys, good_key, good_val):
    is_set = kind in ('Set', 'TreeSet')
    try:
        t = cls(base_keys) if is_set else cls([(k, good_val) for k in base_keys])
    except Exception as e:          # noqa
        return ('ctor-raised', type(e).__name__), None
    try:
        if op == 'get':
            r = t.get(arg, 'D')
        elif op == 'getitem':
            r = t[arg]
        elif op == 'contains':
            r = arg in t
        elif op == 'has_key':
            r = bool(t.has_key(arg))
        elif op == 'setitem':
            t[arg] = good_val
            r = None
        elif op == 'setdefault':
            r = t.setdefault(arg, good_val)
        elif op == 'insert':
            r = t.insert(arg, good_val) if not is_set else t.insert(arg)
        elif op == 'delitem':
            del t[arg]
            r = None
        elif op == 'pop':
            r = t.pop(arg)
        elif op == 'pop_default':
            r = t.pop(arg, 'D')
        elif op == 'update':
            t.update([arg] if is_set else [(arg, good_val)])
            r = None
        elif op == 'minKey':
            r = t.minKey(arg)
        elif op == 'maxKey':
            r = t.maxKey(arg)
        elif op == 'keys_min':
            r = list(t.keys(arg))
        elif op == 'keys_max':
            r = list(t.keys(None, arg))
        elif op == 'ctor':
            t = cls([arg]) if is_set else cls([(arg, good_val)])
            r = None
        elif op == 'setvalue':
            t[good_key] = arg
            r = t[good_key]
        elif op == 'setdefault_value':
            r = t.setdefault(good_key + 1 if isinstance(good_key, int) else good_key, arg)
        elif op == 'add':
            r = t.add(arg)
        elif op == 'remove':
            t.remove(arg)
            r = None
        else:
            t.discard(arg)
            r = None
        out = ('ok', r)
    except Exception as e:          # noqa
        out = ('raised', type(e).__name__)
    try:
        c = list(t.keys()) if is_set else list(t.items())
        c = [c, bool(t), len(t), state_sig(t, {})]
    except Exception as e:          # noqa
        c = ('unreadable', type(e).__name__)
    return out, c


def state_sig(x, memo):
    """implementation-independent rendering of the whole serialized state"""
    if isinstance(x, tuple):
        return tuple(state_sig(i, memo) for i in x)
    if hasattr(x, '__getstate__') and hasattr(x, '_p_oid'):
        if id(x) in memo:
            return ('ref', memo[id(x)])
        memo[id(x)] = len(memo)
        return (type(x).__name__.replace('Py', ''), state_sig(x.__getstate__(), memo))
    return x


def norm_val(v):
    if isinstance(v, float) and v != v:
        return 'nan'
    if isinstance(v, list):
        return [norm_val(i) for i in v]
    if isinstance(v, tuple):
        return tuple(norm_val(i) for i in v)
    return v


def typed(v):
    """value together with its exact type (True vs 1, 1.0 vs 1)"""
    if isinstance(v, (list, tuple)):
        return (type(v).__name__,) + tuple(typed(i) for i in v)
    return (type(v).__name__, norm_val(v))


def argcat(arg):
    if isinstance(arg, bool):
        return 'bool'
    if isinstance(arg, int):
        return 'int32' if -2 ** 31 <= arg < 2 ** 31 else 'int64' if -2 ** 63 <= arg < 2 ** 63 else 'uint64' if 0 <= arg < 2 ** 64 else 'bigint'
    if isinstance(arg, float):
        return 'nan' if arg != arg else 'float'
    if isinstance(arg, type):
        return 'type'
    return type(arg).__name__


def base_for(fam, size):
    if fam == 'fs':
        return [[], [b'ab'], [b'aa', b'ab', b'ac', b'ad', b'ae']][size], b'ab'
    return [[], [5], [1, 3, 5, 7, 9, 11]][size], 5


def compare(fam, kind, op, arg, size, ccl, pcl):
    """-> (ctx additions, diff kind or None, detail)"""
    is_set = kind in ('Set', 'TreeSet')
    base_keys, good_key = base_for(fam, size)
    good_val = {'I': 1, 'L': 1, 'U': 1, 'Q': 1, 'F': 1.0, 'O': 'v', 's': b'abcdef'}[fam[1]]
    (o1, c1) = run_one(ccl[kind], kind, op, arg, base_keys, good_key, good_val)
    (o2, c2) = run_one(pcl[kind], kind, op, arg, base_keys, good_key, good_val)
    c = o1[0] if o1[0] != 'raised' else o1[1]
    py = o2[0] if o2[0] != 'raised' else o2[1]
    info = dict(c=c, py=py, argcat=argcat(arg), famcls='fs' if fam == 'fs' else 'obj' if fam[0] == 'O' else 'native',
                valcls={'O': 'obj', 'F': 'float', 's': 'bytes'}.get(fam[1], 'int'),
                level='tree' if kind in ('BTree', 'TreeSet') else 'leaf', size=len(base_keys))
    diff = None
    detail = None
    want_c = base_keys if is_set else [(k, good_val) for k in base_keys]
    cc1 = c1[0] if isinstance(c1, list) else c1
    if c != py:
        diff, detail = 'outcome', (c, py)
    elif o1[0] == 'ok' and op != 'update' and not (op in ('add', 'insert', 'has_key') and bool(o1[1]) == bool(o2[1])) \
            and norm_val(o1[1]) != norm_val(o2[1]):
        diff, detail = 'result', (typed(o1[1]), typed(o2[1]))
    elif typed(c1) != typed(c2):
        diff, detail = 'contents', (typed(c1), typed(c2))
    elif o1[0] == 'raised' and op in ('setitem', 'setdefault', 'insert', 'update', 'add', 'setvalue', 'setdefault_value') \
            and typed(cc1) != typed(want_c):
        diff, detail = 'rejected-write-changed', (typed(cc1), typed(want_c))
    return info, diff, detail


def diff_types(P, ks, a):
    fam, kind = P['family'], P['kind']
    is_set = kind in ('Set', 'TreeSet')
    ops = SET_OPS if is_set else OPS
    op = ops[common.choose(a['op'], len(ops))]
    pal = palette(fam[0], P.get('wide', True))
    arg = pal[common.choose(a['p'], len(pal))]
    size = P['size'] if 'size' in P else common.choose(a['size'], 3)
    with common.untraced():
        ccl, pcl = shapes.classes(fam, 'c'), shapes.classes(fam, 'py')
        for cl in (ccl, pcl):
            shapes.set_sizes(cl, 2, 2)
        if arg != arg and op not in ('setvalue', 'setdefault_value'):
            return                      # nan is not an orderable key: outside every family's key domain
        info, diff, detail = compare(fam, kind, op, arg, size, ccl, pcl)
        ctx = dict(info, harness='diff_types', family=fam, kind=kind, op=op, diff=diff)
        if diff == 'outcome':
            fail('C and Python disagree on %s(%s): %s vs %s' % (op, info['argcat'], info['c'], info['py']), ctx)
        elif diff == 'result':
            fail('C and Python return different results for %s(%s)' % (op, info['argcat']), ctx, detail)
        elif diff == 'contents':
            fail('C and Python end with different contents after %s(%s)' % (op, info['argcat']), ctx, detail)
        elif diff is not None:
            fail('a rejected write changed the contents: %s(%s)' % (op, info['argcat']), ctx, detail)
