"""C14: an exception raised by a key comparison leaves the container intact.

P: impl, kind, tpl/L/I/prov (trees) or n (leaves), group
ks: strictly increasing symbolic stored keys; a: x, y (argument keys), op
    (selector inside the group), f (index of the failing comparison, 0 = none)
"""
import gc
import sys

from engine import shapes
from harness import common
from harness.common import Model, fail, keq, klt, same_keys, same_pairs
from harness import keys as keys_mod
from harness.keys import K, CmpError
from harness import h_step
from harness.h_step import prestate, map_op, set_op, VNEW, NOPS

FMAX = 40


def cmpfail_step(P, ks, a):
    kind = P['kind']
    is_set = kind in ('TreeSet', 'Set')
    grp = P['group']
    nops = {'range': 3}.get(grp) or NOPS[('set' if is_set else 'map', grp)]
    if grp == 'read':
        # the calls of the read group that compare keys: get/[]/in/has_key/setdefault-free lookups, isdisjoint
        op = (0, 1, 6)[common.choose(a['op'], 3)] if is_set else common.choose(a['op'], 5)
    else:
        op = common.choose(a['op'], nops)
    # the class of the exception the failing comparison raises (solver-chosen where the obligation has the selector)
    keys_mod.CTL['failcls'] = keys_mod.FAULTS[1 + common.choose(a['ec'], len(keys_mod.FAULTS) - 1)] if 'ec' in a else CmpError
    try:
        with common.untraced():
            _cmpfail_step(P, ks, a, op, a['f'])
    finally:
        keys_mod.CTL['failcls'] = CmpError


def contents(t, is_set):
    """ordered contents; a container that cannot even be read is reported"""
    try:
        return h_step.contents(t, is_set)
    except Exception as e:      # noqa
        fail('reading the contents raised %s after the call' % type(e).__name__, {'harness': 'cmpfail_step'})
        return []


def refs(objs):
    return [sys.getrefcount(o) for o in objs]


def _cmpfail_step(P, ks, a, op, f):
    keys_mod.reset()
    kk = [K(k, i) for i, k in enumerate(ks)]
    x = K(a['x'])
    y = K(a['y']) if 'y' in a else K(a['x'])
    allk = kk + [x, y]
    base = refs(allk)
    ctx = _inner(P, ks, a, op, f, kk, x, y)
    # reference accounting (C implementation): everything is released with the container.
    # All locals of the inner frame are gone here; the decision memo holds key references.
    if P['impl'] == 'c':
        keys_mod._MEMO.clear()
        gc.collect()
        after = refs(allk)
        if after != base:
            fail('key objects leaked or over-released (refcount delta %r)' % ([p - q for p, q in zip(after, base)],), ctx)


def _inner(P, ks, a, op, f, kk, x, y):
    cl = h_step.classes(P)
    kind = P['kind']
    is_set = kind in ('TreeSet', 'Set')
    is_tree = kind in ('BTree', 'TreeSet')
    grp = P['group']
    t, m, kobj = prestate(P, ks, False, kk)
    fc = keys_mod.CTL['failcls']
    ctx = {'harness': 'cmpfail_step', 'impl': P['impl'], 'kind': kind, 'group': grp, 'op': op,
           'depth': shapes.depth(P['tpl']) if 'tpl' in P else 1,
           'exc': None if fc is CmpError else fc.__mro__[2].__name__, 'f': 0}
    m0 = m.copy()
    keys_mod.reset_counter()
    keys_mod.CTL['failsym'] = f         # symbolic: which comparison of the call raises (beyond the last one = none)
    raised = None
    try:
        if grp == 'range':
            if op == 0:
                with keys_mod.live():
                    got = list(t.keys(x, y))
                want = [k for k in m.keys() if not klt(k, x) and not klt(y, k)]
                ok = same_keys(got, want)
            elif op == 1:
                try:
                    with keys_mod.live():
                        got = t.minKey(x)
                except ValueError as e_:
                    if isinstance(e_, CmpError):
                        raise
                    got = None
                c = [k for k in m.keys() if not klt(k, x)]
                ok = (got is None and not c) or (c and got is not None and keq(got, c[0]))
            else:
                try:
                    with keys_mod.live():
                        got = t.maxKey(x)
                except ValueError as e_:
                    if isinstance(e_, CmpError):
                        raise
                    got = None
                c = [k for k in m.keys() if not klt(x, k)]
                ok = (got is None and not c) or (c and got is not None and keq(got, c[-1]))
            ge = we = None
            got = want = ok
            loose = False
            want = True
        elif is_set:
            got, ge, want, we, loose = set_op(t, m, grp, op, x, y, 'y' not in a)
        else:
            got, ge, want, we, loose = map_op(t, m, grp, op, x, y, VNEW, kind == 'BTree')
    except CmpError:
        ge, raised = 'CmpError', True
        got = want = we = None
        loose = False
    n_cmp = keys_mod.CTL['n']
    struck = keys_mod.CTL['failed_at']
    keys_mod.reset_counter()
    ctx['ncmp'] = n_cmp
    ctx['f'] = struck
    if ge == 'CmpError':
        if not struck:
            fail('CmpError surfaced although no comparison was made to fail', ctx)
        # contents: previous or completed change, never partial (multi-key calls: any prefix)
        c = contents(t, is_set)
        eq0 = same_keys(c, m0.keys()) if is_set else same_pairs(c, m0.pairs())
        eq1 = same_keys(c, m.keys()) if is_set else same_pairs(c, m.pairs())
        if not (eq0 or eq1):
            multi = grp in ('bulk', 'inplace') or (is_set and grp == 'write' and op == 2)
            if multi:
                ck = c if is_set else [i[0] for i in c]
                k0, k1 = m0.keys(), m.keys()
                for k in ck:
                    if not any(keq(k, q) for q in k0) and not any(keq(k, q) for q in k1):
                        fail('a failed multi-key call invented a key', ctx)
                for k in k0:
                    if any(keq(k, q) for q in k1) and not any(keq(k, q) for q in ck):
                        fail('a failed multi-key call lost a key that neither the old nor the new contents lack', ctx)
                for p_, q_ in zip(ck, ck[1:]):
                    if not klt(p_, q_):
                        fail('contents not strictly ascending after a failed multi-key call', ctx)
                m = Model([(k, None) for k in c] if is_set else c)
            else:
                fail('after a failing comparison the contents are neither the previous ones nor the completed change', ctx,
                     common.show(c), common.show(m0.pairs()), common.show(m.pairs()))
                m = None
        else:
            m = m0 if eq0 else m
        if m is not None and len(t) != len(m):
            fail('len() inconsistent after a failing comparison', ctx)
    else:
        if struck:
            fail('a raising comparison was swallowed: the exception did not reach the caller', ctx, ge)
        if ge != we:
            fail('exception class differs from the sorted-map model', ctx, ge, we)
        elif ge is None and not (bool(got) == bool(want) if loose else (got is want or got == want)):
            fail('return value differs from the sorted-map model', ctx)
        c = contents(t, is_set)
        if not (same_keys(c, m.keys()) if is_set else same_pairs(c, m.pairs())):
            fail('ordered contents differ from the model', ctx)
    if m is not None:
        if is_tree:
            h_step.sound(t, P, cl, 'after the (failed) call', ctx)
        # later operations behave normally
        z = K(a['z']) if 'z' in a else y
        for kx in (z, x):
            if is_set:
                g1, e1, w1, we1, _ = set_op(t, m, 'write', 0, kx, kx, True)
                g2, e2, w2, we2, _ = set_op(t, m, 'del', 0, kx, kx, True)
            else:
                g1, e1, w1, we1, _ = map_op(t, m, 'write', 0, kx, kx, VNEW + 1, kind == 'BTree')
                g2, e2, w2, we2, _ = map_op(t, m, 'del', 0, kx, kx, VNEW + 1, kind == 'BTree')
            if e1 != we1 or e2 != we2:
                fail('a later operation misbehaves after the (failed) call', ctx)
        c = contents(t, is_set)
        if not (same_keys(c, m.keys()) if is_set else same_pairs(c, m.pairs())):
            fail('contents wrong after later operations', ctx)
        if is_tree:
            h_step.sound(t, P, cl, 'after later operations', ctx)
    return ctx
