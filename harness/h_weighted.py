"""C12: weightedUnion / weightedIntersection follow the documented formula.

weighted_case   object-key / integer-value family (OL: 64-bit values): keys are
                symbolic (class K) in BOTH implementations; values and weights
                are symbolic integers in Python and solver-chosen palette
                entries in C (the compiled code unboxes them).
weighted_float  IF family, concrete keys, palette values/weights (float32 exact).
"""
from engine import shapes
from harness import common
from harness.common import fail, keq, klt
from harness import keys as keys_mod
from harness.keys import K

SETS = ('Set', 'TreeSet')
MAPS = ('Bucket', 'BTree')
_CL = {}
WPAL = [1, -2, 7, 2 ** 32 + 3]
VPAL = [3, 2 ** 31 + 5]


def classes(fam, impl):
    if (fam, impl) not in _CL:
        cl = shapes.classes(fam, impl)
        shapes.set_sizes(cl, 2, 2)
        _CL[(fam, impl)] = cl
    return _CL[(fam, impl)]


def build(cl, kind, keys, vals):
    if kind == 'None':
        return None
    if kind in SETS:
        return cl[kind](keys)
    return cl[kind](list(zip(keys, vals)))


def expect(fn, ka, kb, A, B, va, vb, w1, w2):
    """documented result: (weight, kind, [(key, value)] or [key])"""
    if ka == 'None' and kb == 'None':
        return (0, 'None', None)
    if ka == 'None':
        return (w2, 'same-b', None)
    if kb == 'None':
        return (w1, 'same-a', None)

    def val(keys, vals, kind, k):
        for q, v in zip(keys, vals):
            if keq(q, k):
                return 1 if kind in SETS else v
        return None
    allk = []
    for k in list(A) + list(B):
        if not any(keq(k, q) for q in allk):
            allk.append(k)
    out = []
    for k in allk:
        x, y = val(A, va, ka, k), val(B, vb, kb, k)
        if fn == 'union' or (x is not None and y is not None):
            out.append((k, (0 if x is None else x) * w1 + (0 if y is None else y) * w2))
    res = []
    for kv in out:
        i = 0
        while i < len(res) and klt(res[i][0], kv[0]):
            i += 1
        res.insert(i, kv)
    if ka in SETS and kb in SETS:
        return ((1 if fn == 'union' else w1 + w2), 'Set', [k for k, _ in res])
    return (1, 'Bucket', res)


def weighted_case(P, ks, a):
    impl = P['impl']
    fn = ('union', 'intersection')[common.choose(a['fn'], 2)]
    na, nb = P['na'], P['nb']
    if impl == 'c':
        i1 = common.choose(a['w1'], len(WPAL))
        i2 = common.choose(a['w2'], 2)
        w1, w2 = WPAL[i1], (1, 7)[i2]
        dflt = i1 == 0 and i2 == 0          # weights (1, 1): call without explicit weights
        va = [VPAL[common.choose(a['va%d' % i], len(VPAL))] for i in range(na)]
        vb = [VPAL[common.choose(a['vb%d' % i], len(VPAL))] for i in range(nb)]
    else:
        from harness import h_repr
        h_repr.install_stub()               # struct packer -> range-contract stub (struct would realise the symbols)
        w1, w2 = a['w1'], a['w2']
        va = [a['va%d' % i] for i in range(na)]
        vb = [a['vb%d' % i] for i in range(nb)]
        dflt = common.flag(a['dflt'])       # call without explicit weights
        if dflt:
            w1 = w2 = 1
    if impl == 'c':
        with common.untraced():
            _weighted(P, a, fn, dflt, w1, w2, va, vb)
    else:
        _weighted(P, a, fn, dflt, w1, w2, va, vb)     # traced: the Python code multiplies symbolic integers


def _weighted(P, a, fn, dflt, w1, w2, va, vb):
    impl, fam, ka, kb, na, nb = P['impl'], P['family'], P['ka'], P['kb'], P['na'], P['nb']
    cl = classes(fam, impl)
    mod = cl['module']
    f = getattr(mod, 'weighted' + fn.capitalize() + cl['sfx'])
    with common.untraced():
        keys_mod.reset()
        A = [K(a['a%d' % i], i, 1) for i in range(na)]
        B = [K(a['b%d' % i], i, 2) for i in range(nb)]
    ctx = {'harness': 'weighted_case', 'impl': impl, 'ka': ka, 'kb': kb, 'fn': fn, 'dflt': dflt}
    # the exact result must be representable (overflow is outside the documented formula)
    lo, hi = -2 ** 63, 2 ** 63 - 1
    if P.get('same'):
        # the very same object as both operands
        x = y = build(cl, ka, A, va)
        B, vb = A, va
        ctx['same'] = True
    else:
        x, y = build(cl, ka, A, va), build(cl, kb, B, vb)
    want = expect(fn, ka, kb, A, B, va, vb, w1, w2)      # traced for Python: the formula is evaluated on the symbols
    if want[2] is not None and want[1] == 'Bucket':
        for _, v in want[2]:
            if not (lo <= v <= hi):
                return
    try:
        r = f(x, y) if dflt else f(x, y, w1, w2)
    except Exception as e:      # noqa
        fail('weighted%s raised %s' % (fn.capitalize(), type(e).__name__), ctx)
        return
    if not (isinstance(r, tuple) and len(r) == 2):
        fail('result is not a (weight, container) pair', ctx)
        return
    w, c = r
    if not (w == want[0]):
        fail('returned weight differs from the documented one', ctx)
    if want[1] == 'None':
        if c is not None:
            fail('both operands None must give (0, None)', ctx)
        return
    if want[1] == 'same-a' or want[1] == 'same-b':
        if c is not (x if want[1] == 'same-a' else y):
            fail('a None operand must return the other operand itself', ctx)
        return
    wtype = cl['Set'] if want[1] == 'Set' else cl['Bucket']
    if type(c) is not wtype:
        fail('result container is not of the documented kind', ctx)
        return
    if want[1] == 'Bucket' and (c is x or c is y):
        fail('the weighted result is an operand itself, not a new container', ctx)
        return
    got = list(c.keys()) if want[1] == 'Set' else list(c.items())
    if want[1] == 'Set':
        ok = len(got) == len(want[2]) and all(keq(p, q) for p, q in zip(got, want[2]))
    else:
        ok = len(got) == len(want[2]) and all(keq(p[0], q[0]) for p, q in zip(got, want[2]))
        if ok:
            for p, q in zip(got, want[2]):
                if not (p[1] == q[1]):
                    fail('a value differs from v1*w1 + v2*w2', ctx)
    if not ok:
        fail('result keys differ from the union / intersection of the operands\' keys', ctx)


# ---------------------------------------------------------------------------

FW = [0.5, 2.0, -1.5]
FV = [0.25, -3.0]


def weighted_float(P, ks, a):
    fn = ('union', 'intersection')[common.choose(a['fn'], 2)]
    w1 = FW[common.choose(a['w1'], len(FW))]
    w2 = FW[common.choose(a['w2'], len(FW))]
    ka, kb = P['ka'], P['kb']
    lay = common.choose(a['lay'], 4)
    v = [FV[common.choose(a['v%d' % i], len(FV))] for i in range(2)]
    with common.untraced():
        impl, fam = P['impl'], P['family']
        cl = classes(fam, impl)
        mod = cl['module']
        f = getattr(mod, 'weighted' + fn.capitalize() + cl['sfx'])
        A, B = [([1, 3, 5], [3, 4, 9]), ([1, 2], [5, 6, 7]), ([4, 8], [1, 8]), ([2], [2])][lay]
        va = [v[0], v[1], v[0]][:len(A)]
        vb = [v[1], v[0], v[1]][:len(B)]
        x, y = build(cl, ka, A, va), build(cl, kb, B, vb)
        want = expect(fn, ka, kb, A, B, va, vb, w1, w2)
        ctx = {'harness': 'weighted_float', 'impl': impl, 'family': fam, 'ka': ka, 'kb': kb, 'fn': fn}
        try:
            w, c = f(x, y, w1, w2)
        except Exception as e:      # noqa
            fail('weighted%s raised %s' % (fn.capitalize(), type(e).__name__), ctx)
            return
        if w != want[0]:
            fail('returned weight differs from the documented one', ctx, w, want[0])
        got = list(c.keys()) if want[1] == 'Set' else list(c.items())
        if got != want[2]:
            fail('weighted result differs from v1*w1 + v2*w2 (all palette values are exact in single precision)', ctx, got, want[2])
