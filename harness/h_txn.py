"""C04 / C05 / C08: the containers inside a (mini) object database.

commit_step (C04)  a transaction of one or two solver-chosen operations on a
                   committed tree, cut by commit or abort; a fresh reader loads
                   what was stored.
"""
from engine import shapes
from harness import common
from harness.common import Model, fail, keq, klt, same_keys, same_pairs
from harness import keys as keys_mod
from harness.keys import K
from harness import h_step
from harness.h_step import prestate, contents, map_op, set_op, VNEW, NOPS
from harness.minidb import Storage, Jar, ConflictError, ReadConflictError, STICKY, GHOST


def read_all(t, is_set, what, ctx):
    try:
        return contents(t, is_set)
    except Exception as e:          # noqa
        fail('%s: reading the contents raised %s' % (what, type(e).__name__), ctx)
        return None


def check_view(t, m, P, cl, is_set, what, ctx):
    """contents == model, every key found, checkers + walker accept"""
    c = read_all(t, is_set, what, ctx)
    if c is None:
        return
    if not (same_keys(c, m.keys()) if is_set else same_pairs(c, m.pairs())):
        fail('%s: ordered contents differ from what the writer saw' % what, ctx, common.show(c), common.show(m.pairs()))
        return
    try:
        n = len(t)
    except Exception as e:          # noqa
        fail('%s: len() raised %s' % (what, type(e).__name__), ctx)
        return
    if n != len(m):
        fail('%s: len() differs' % what, ctx)
    for k in m.keys():
        try:
            found = k in t
        except Exception as e:      # noqa
            fail('%s: lookup raised %s' % (what, type(e).__name__), ctx)
            return
        if not found:
            fail('%s: a stored key is not found by lookup' % what, ctx)
    if P['kind'] in ('BTree', 'TreeSet'):
        h_step.sound(t, dict(P, L=None, I=None), cl, what, ctx)


def stored_tree(P, ks, kk):
    """-> storage, writer jar, root object, root oid, model"""
    t, m, kobj = prestate(P, ks, False, kk)
    st = Storage()
    W = Jar(st)
    oid = W.add(t)
    if P.get('tpl') and P['tpl'][0] == 'T':
        # a tree that grew over many transactions: every node has its own record.
        # (Storing a freshly built multi-level tree in ONE transaction runs into known
        # finding C06-nonroot-node-embeds-its-only-leaf; the one-leaf root form T1 is
        # stored the embedded way.)
        add_all(W, t)
    W.commit()
    return st, W, t, oid, m


def add_all(W, t):
    b = t._firstbucket
    while b is not None:
        if b._p_oid is None:
            W.add(b)
        b = b._next

    def rec(node):
        stt = node.__getstate__()
        if stt is None or len(stt) == 1:
            return
        for x in stt[0][::2]:
            if type(x) is type(node):
                if x._p_oid is None:
                    W.add(x)
                rec(x)
    rec(t)


def do_op(t, m, P, grp, op, x, y, is_set):
    if is_set:
        return set_op(t, m, grp, op, x, y, True)
    return map_op(t, m, grp, op, x, y, VNEW, P['kind'] == 'BTree')


def commit_step(P, ks, a):
    kind = P['kind']
    is_set = kind in ('TreeSet', 'Set')
    nops = NOPS[('set' if is_set else 'map', P['group'])]
    op = common.choose(a['op'], nops)
    op2 = common.choose(a['op2'], NOPS[('set' if is_set else 'map', P['group2'])]) if 'op2' in a else None
    ghost = common.flag(a['ghost'])
    cut = common.choose(a['cut'], 2)
    cut2 = common.choose(a['cut2'], 3) if 'cut2' in a else None
    with common.untraced():
        _commit_step(P, ks, a, op, op2, ghost, cut, cut2)


def _commit_step(P, ks, a, op, op2, ghost, cut, cut2):
    kind = P['kind']
    is_set = kind in ('TreeSet', 'Set')
    cl = h_step.classes(P)
    keys_mod.reset()
    kk = [K(k, i) for i, k in enumerate(ks)]
    x = K(a['x'])
    ctx = {'harness': 'commit_step', 'impl': P['impl'], 'kind': kind, 'group': P['group'], 'op': op, 'ghost': ghost,
           'cut': cut, 'cut2': cut2}
    st, W, t, oid, m = stored_tree(P, ks, kk)
    if ghost:
        W.minimize()
    committed = m.copy()
    got, ge, want, we, loose = do_op(t, m, P, P['group'], op, x, x, is_set)
    if ge != we:
        fail('exception class differs from the model inside a transaction', ctx, ge, we)
    # first cut: 0 = commit, 1 = abort   (cut2: 0 = commit, 1 = abort, 2 = no second step)
    steps = [(cut, None)]
    if op2 is not None and cut2 != 2:
        steps.append((cut2, (P['group2'], op2, K(a['y']))))
    for i, (c_, second) in enumerate(steps):
        if second is not None:
            grp2, o2, y = second
            got, ge, want, we, loose = do_op(t, m, P, grp2, o2, y, y, is_set)
            if ge != we:
                fail('exception class differs from the model inside the second transaction', ctx, ge, we)
        cc = dict(ctx, step=i)
        if c_ == 0:
            try:
                W.commit()
            except Exception as e:      # noqa
                fail('commit raised %s' % type(e).__name__, cc)
                return
            committed = m.copy()
            R = Jar(st)
            r = R.get(oid, cl[kind])
            check_view(r, committed, P, cl, is_set, 'fresh reader after commit', cc)
            check_view(t, committed, P, cl, is_set, 'writer after its commit', cc)
        else:
            W.abort()
            m = committed.copy()
            check_view(t, committed, P, cl, is_set, 'writer after abort', cc)
            R = Jar(st)
            r = R.get(oid, cl[kind])
            check_view(r, committed, P, cl, is_set, 'fresh reader after an aborted transaction', cc)
    pinned = W.sticky()
    if pinned:
        fail('a node is left pinned (sticky) after the transactions', ctx)
