"""C04 / C05 / C08: the containers inside a (mini) object database.

commit_step (C04)  a transaction of one or two solver-chosen operations on a
                   committed tree, cut by commit or abort; a fresh reader loads
                   what was stored.
"""
from engine import shapes
from harness import common
from harness.common import Model, fail, keq, klt, same_keys, same_pairs
from harness import keys as keys_mod
from harness.keys import K
from harness import h_step
from harness.h_step import prestate, contents, map_op, set_op, VNEW, NOPS
from harness.minidb import Storage, Jar, ConflictError, ReadConflictError, STICKY, GHOST


def read_all(t, is_set, what, ctx):
    try:
        return contents(t, is_set)
    except Exception as e:          # noqa
        fail('%s: reading the contents raised %s' % (what, type(e).__name__), ctx)
        return None


def check_view(t, m, P, cl, is_set, what, ctx):
    """contents == model, every key found, checkers + walker accept"""
    c = read_all(t, is_set, what, ctx)
    if c is None:
        return
    if not (same_keys(c, m.keys()) if is_set else same_pairs(c, m.pairs())):
        fail('%s: ordered contents differ from what the writer saw' % what, ctx, common.show(c), common.show(m.pairs()))
        return
    try:
        n = len(t)
    except Exception as e:          # noqa
        fail('%s: len() raised %s' % (what, type(e).__name__), ctx)
        return
    if n != len(m):
        fail('%s: len() differs' % what, ctx)
    for k in m.keys():
        try:
            found = k in t
        except Exception as e:      # noqa
            fail('%s: lookup raised %s' % (what, type(e).__name__), ctx)
            return
        if not found:
            fail('%s: a stored key is not found by lookup' % what, ctx)
    if P['kind'] in ('BTree', 'TreeSet'):
        h_step.sound(t, dict(P, L=None, I=None), cl, what, ctx)


def stored_tree(P, ks, kk):
    """-> storage, writer jar, root object, root oid, model"""
    t, m, kobj = prestate(P, ks, False, kk)
    st = Storage()
    W = Jar(st)
    oid = W.add(t)
    if P.get('tpl') and P['tpl'][0] == 'T':
        # a tree that grew over many transactions: every node has its own record.
        # (Storing a freshly built multi-level tree in ONE transaction runs into known
        # finding C06-nonroot-node-embeds-its-only-leaf; the one-leaf root form T1 is
        # stored the embedded way.)
        add_all(W, t)
    W.commit()
    return st, W, t, oid, m


def add_all(W, t):
    b = t._firstbucket
    while b is not None:
        if b._p_oid is None:
            W.add(b)
        b = b._next

    def rec(node):
        stt = node.__getstate__()
        if stt is None or len(stt) == 1:
            return
        for x in stt[0][::2]:
            if type(x) is type(node):
                if x._p_oid is None:
                    W.add(x)
                rec(x)
    rec(t)


def do_op(t, m, P, grp, op, x, y, is_set):
    if is_set:
        return set_op(t, m, grp, op, x, y, True)
    return map_op(t, m, grp, op, x, y, VNEW, P['kind'] == 'BTree')


def commit_step(P, ks, a):
    kind = P['kind']
    is_set = kind in ('TreeSet', 'Set')
    nops = NOPS[('set' if is_set else 'map', P['group'])]
    op = common.choose(a['op'], nops)
    op2 = common.choose(a['op2'], NOPS[('set' if is_set else 'map', P['group2'])]) if 'op2' in a else None
    ghost = common.flag(a['ghost'])
    cut = common.choose(a['cut'], 2)
    cut2 = common.choose(a['cut2'], 3) if 'cut2' in a else None
    with common.untraced():
        _commit_step(P, ks, a, op, op2, ghost, cut, cut2)


def _commit_step(P, ks, a, op, op2, ghost, cut, cut2):
    kind = P['kind']
    is_set = kind in ('TreeSet', 'Set')
    cl = h_step.classes(P)
    keys_mod.reset()
    kk = [K(k, i) for i, k in enumerate(ks)]
    x = K(a['x'])
    ctx = {'harness': 'commit_step', 'impl': P['impl'], 'kind': kind, 'group': P['group'], 'op': op, 'ghost': ghost,
           'cut': cut, 'cut2': cut2}
    st, W, t, oid, m = stored_tree(P, ks, kk)
    if ghost:
        W.minimize()
    committed = m.copy()
    got, ge, want, we, loose = do_op(t, m, P, P['group'], op, x, x, is_set)
    if ge != we:
        fail('exception class differs from the model inside a transaction', ctx, ge, we)
    # first cut: 0 = commit, 1 = abort   (cut2: 0 = commit, 1 = abort, 2 = no second step)
    steps = [(cut, None)]
    if op2 is not None and cut2 != 2:
        steps.append((cut2, (P['group2'], op2, K(a['y']))))
    for i, (c_, second) in enumerate(steps):
        if second is not None:
            grp2, o2, y = second
            got, ge, want, we, loose = do_op(t, m, P, grp2, o2, y, y, is_set)
            if ge != we:
                fail('exception class differs from the model inside the second transaction', ctx, ge, we)
        cc = dict(ctx, step=i)
        if c_ == 0:
            try:
                W.commit()
            except Exception as e:      # noqa
                fail('commit raised %s' % type(e).__name__, cc)
                return
            committed = m.copy()
            R = Jar(st)
            r = R.get(oid, cl[kind])
            check_view(r, committed, P, cl, is_set, 'fresh reader after commit', cc)
            check_view(t, committed, P, cl, is_set, 'writer after its commit', cc)
        else:
            W.abort()
            m = committed.copy()
            check_view(t, committed, P, cl, is_set, 'writer after abort', cc)
            R = Jar(st)
            r = R.get(oid, cl[kind])
            check_view(r, committed, P, cl, is_set, 'fresh reader after an aborted transaction', cc)
    pinned = W.sticky()
    if pinned:
        fail('a node is left pinned (sticky) after the transactions', ctx)


# ---------------------------------------------------------------------------
# C05: cache eviction

class Unorderable:
    """a key of a type the family cannot use (default comparison)"""


EV_GROUPS = {'read': 8, 'write': 3, 'del': 4, 'range': 5, 'bad': 8}


def evict_step(P, ks, a):
    kind = P['kind']
    is_set = kind in ('TreeSet', 'Set')
    grp = P['group']
    if grp in ('write', 'del'):
        nops = NOPS[('set' if is_set else 'map', grp)]
    elif grp == 'read':
        nops = 6 if is_set else 8
    else:
        nops = EV_GROUPS[grp]
    op = common.choose(a['op'], nops)
    ghost = common.flag(a['ghost'])
    with common.untraced():
        _evict_step(P, ks, a, op, ghost)


def _evict_step(P, ks, a, op, ghost):
    kind = P['kind']
    is_set = kind in ('TreeSet', 'Set')
    cl = h_step.classes(P)
    grp = P['group']
    keys_mod.reset()
    kk = [K(k, i) for i, k in enumerate(ks)]
    x = K(a['x'])
    y = K(a['y']) if 'y' in a else x
    ctx = {'harness': 'evict_step', 'impl': P['impl'], 'kind': kind, 'group': grp, 'op': op, 'ghost': ghost}
    st, W, t, oid, m = stored_tree(P, ks, kk)
    if ghost:
        W.minimize()
    m0 = m.copy()
    # the e-th key comparison of the operation sweeps the whole cache
    keys_mod.reset_counter()
    keys_mod.CTL['hooksym'] = a['e']
    keys_mod.CTL['hookfn'] = W.minimize
    ok = True
    ge = we = None
    try:
        if grp in ('write', 'del'):
            got, ge, want, we, loose = do_op(t, m, P, grp, op, x, x, is_set)
            ok = ge == we and (ge is not None or (bool(got) == bool(want) if loose else (got is want or got == want)))
        elif grp == 'read':
            if is_set:
                got, ge, want, we, loose = set_op(t, m, 'read', op, x, x, True)
            else:
                got, ge, want, we, loose = map_op(t, m, 'read', op, x, x, VNEW, kind == 'BTree')
            ok = ge == we and (ge is not None or (bool(got) == bool(want) if loose else (got is want or got == want)))
        elif grp == 'range':
            mk = m.keys()
            with keys_mod.live():
                if op == 0:
                    got = list(t.keys(x, y))
                    ok = same_keys(got, [k for k in mk if not klt(k, x) and not klt(y, k)])
                elif op == 1:
                    got = list(t.keys(min=x, excludemin=True))
                    ok = same_keys(got, [k for k in mk if klt(x, k)])
                elif op == 2:
                    got = list(t.keys(max=x, excludemax=True))
                    ok = same_keys(got, [k for k in mk if klt(k, x)])
                elif op == 3:
                    try:
                        got = t.minKey(x)
                    except ValueError:
                        got = None
                    c = [k for k in mk if not klt(k, x)]
                    ok = (got is None and not c) or (bool(c) and got is not None and keq(got, c[0]))
                else:
                    try:
                        got = t.maxKey(x)
                    except ValueError:
                        got = None
                    c = [k for k in mk if not klt(x, k)]
                    ok = (got is None and not c) or (bool(c) and got is not None and keq(got, c[-1]))
        else:
            # operations that FAIL: a key the family cannot use; results are C09's subject,
            # here only: contents unchanged, nothing stays pinned
            bad = Unorderable()
            with keys_mod.live():
                try:
                    if op == 0:
                        (t.has_key(bad) if is_set else t.get(bad))
                    elif op == 1:
                        bad in t
                    elif op == 2:
                        t.minKey(bad)
                    elif op == 3:
                        t.maxKey(bad)
                    elif op == 4:
                        list(t.keys(bad, x))
                    elif op == 5:
                        list(t.keys(x, bad))
                    elif op == 6:
                        (t.add(bad) if is_set else t.__setitem__(bad, 1))
                    else:
                        (t.remove(bad) if is_set else t.__delitem__(bad))
                except (TypeError, KeyError, ValueError):
                    pass
    except Exception as e:          # noqa
        fail('the operation raised %s with a cache sweep inside it' % type(e).__name__, ctx)
        return
    ctx['e'] = keys_mod.CTL['hooked_at']
    keys_mod.reset_counter()
    # pins first: any later access to a node clears a stale sticky flag
    pinned = [o for o in W.nodes() if o._p_state == STICKY]
    if pinned:
        fail('a node is left pinned against eviction (sticky) after the operation returned', dict(ctx, pinned=type(pinned[0]).__name__))
    if not ok:
        fail('result differs from the un-cached twin (%s vs %s)' % (ge, we), ctx, ge, we)
    check_view(t, m, P, cl, is_set, 'contents after the operation', ctx)
    W.minimize()
    check_view(t, m, P, cl, is_set, 'contents after evicting everything', ctx)
    # what is stored is what the writer sees
    try:
        W.commit()
    except Exception as e:          # noqa
        fail('commit raised %s' % type(e).__name__, ctx)
        return
    R = Jar(st)
    check_view(R.get(oid, cl[kind]), m, P, cl, is_set, 'fresh reader after commit', ctx)


# ---------------------------------------------------------------------------
# C05, native-key families: calls that fail in the key/value CONVERSION must
# release their pin as well.  Keys are concrete here (the compiled code unboxes
# them); the call kind and the unusable argument are solver-chosen selectors.

BAD_PALETTE = ['a', 2 ** 40, -2 ** 70, None, 1.5, (1,), b'x']
_NCL = {}


def evict_native(P, ks, a):
    op = common.choose(a['op'], 10)
    b = common.choose(a['b'], len(BAD_PALETTE))
    ghost = common.flag(a['ghost'])
    with common.untraced():
        fam, kind, n = P['family'], P['kind'], P['n']
        if (fam, 'c') not in _NCL:
            cl_ = shapes.classes(fam, 'c')
            shapes.set_sizes(cl_, 2, 2)
            _NCL[(fam, 'c')] = cl_
        cl = _NCL[(fam, 'c')]
        is_set = kind in ('Set', 'TreeSet')
        keys = [10 * i for i in range(n)]
        t = cl[kind](keys) if is_set else cl[kind]([(k, k + 1) for k in keys])
        st = Storage()
        W = Jar(st)
        oid = W.add(t)
        if kind in ('BTree', 'TreeSet') and n > 2:
            add_all(W, t)
        W.commit()
        if ghost:
            W.minimize()
        bad = BAD_PALETTE[b]
        ctx = {'harness': 'evict_native', 'family': fam, 'kind': kind, 'op': op, 'bad': repr(bad), 'ghost': ghost}
        exc = None
        try:
            if op == 0:
                (t.has_key(bad) if is_set else t.get(bad))
            elif op == 1:
                bad in t
            elif op == 2:
                t.minKey(bad)
            elif op == 3:
                t.maxKey(bad)
            elif op == 4:
                list(t.keys(bad, 5))
            elif op == 5:
                list(t.keys(5, bad))
            elif op == 6:
                (t.add(bad) if is_set else t.__setitem__(bad, 1))
            elif op == 7:
                (t.remove(bad) if is_set else t.__delitem__(bad))
            elif op == 8:
                (t.update([bad]) if is_set else t.__setitem__(5, bad))
            else:
                (t.discard(bad) if is_set else t.pop(bad, None))
        except (TypeError, KeyError, ValueError, OverflowError) as e:
            exc = type(e).__name__
        except Exception as e:          # noqa
            fail('a call with an unusable argument raised %s' % type(e).__name__, ctx)
        ctx['exc'] = exc
        pinned = [o for o in W.nodes() if o._p_state == STICKY]
        if pinned:
            fail('a node is left pinned against eviction (sticky) after a failing call returned', dict(ctx, pinned=type(pinned[0]).__name__))
        got = list(t.keys()) if is_set else list(t.items())
        want = keys if is_set else [(k, k + 1) for k in keys]
        if got != want and not (op == 8 and not is_set and exc is None):
            fail('a failing call changed the contents', ctx, got, want)
        W.minimize()
        if any(o._p_state != GHOST for o in W.nodes() if not o._p_changed):
            fail('a node cannot be evicted after the failing call', ctx)


# ---------------------------------------------------------------------------
# C05: operands of the module-level set functions may be ghosts (rows of an index that were never touched)

OPERAND_KINDS = ['Set', 'Bucket', 'TreeSet', 'BTree']
OPERAND_OPS = ['multiunion', 'union', 'intersection', 'difference', 'weightedUnion', 'weightedIntersection', 'isdisjoint',
               'update', 'or', 'and', 'sub', 'ior', 'multiunion3']


def _mk_operand(cl, kind, keys):
    if kind in ('Set', 'TreeSet'):
        return cl[kind](keys)
    return cl[kind]([(k, k + 1) for k in keys])


def _norm(r):
    """comparable form of a result (containers by kind and contents)"""
    if isinstance(r, tuple):
        return tuple(_norm(x) for x in r)
    if hasattr(r, 'keys') and hasattr(r, 'minKey'):
        return (type(r).__name__, list(r.items()) if hasattr(r, 'items') else list(r.keys()))
    return r


def evict_operands(P, ks, a):
    ka = common.choose(a['ka'], len(OPERAND_KINDS))
    kb = common.choose(a['kb'], len(OPERAND_KINDS))
    ga, gb = common.flag(a['ga']), common.flag(a['gb'])
    with common.untraced():
        fam, op = P['family'], P['op']
        if (fam, P.get('impl', 'c'), 'ops') not in _NCL:
            cl_ = shapes.classes(fam, P.get('impl', 'c'))
            shapes.set_sizes(cl_, 2, 2)
            _NCL[(fam, P.get('impl', 'c'), 'ops')] = cl_
        cl = _NCL[(fam, P.get('impl', 'c'), 'ops')]
        mod = cl['module']
        KA, KB = [1, 3, 5, 7, 9], [3, 4, 9, 12]
        ctx = {'harness': 'evict_operands', 'family': fam, 'op': op, 'A': OPERAND_KINDS[ka], 'B': OPERAND_KINDS[kb], 'ghostA': ga, 'ghostB': gb}

        def run(ghosts):
            A, B = _mk_operand(cl, OPERAND_KINDS[ka], KA), _mk_operand(cl, OPERAND_KINDS[kb], KB)
            C = _mk_operand(cl, 'Set', [2, 20])
            st = Storage()
            W = Jar(st)
            for o in (A, B, C):
                W.add(o)
                if hasattr(o, '_firstbucket'):
                    add_all(W, o)
            W.commit()
            if ghosts:
                # evict exactly the chosen operands (all of their nodes)
                W.minimize()
                for o, g in ((A, ga), (B, gb), (C, False)):
                    if not g:
                        o._p_activate()
                        list(o.keys())
            sfx = 'Py' if P.get('impl') == 'py' else ''
            try:
                if op == 'multiunion':
                    r = getattr(mod, 'multiunion' + sfx)([A, B])
                elif op == 'multiunion3':
                    r = getattr(mod, 'multiunion' + sfx)([B, 7, A, C])
                elif op in ('union', 'intersection', 'difference'):
                    r = getattr(mod, op + sfx)(A, B)
                elif op in ('weightedUnion', 'weightedIntersection'):
                    r = getattr(mod, op + sfx)(A, B, 2, 3)
                elif op == 'isdisjoint':
                    # unbound calls first: looking a method up on the instance already activates it
                    r = (type(A).isdisjoint(A, A) if hasattr(type(A), 'isdisjoint') else None,
                         type(B).isdisjoint(B, C) if hasattr(type(B), 'isdisjoint') else None,
                         A.isdisjoint(B) if hasattr(type(A), 'isdisjoint') else None)
                elif op == 'update':
                    A.update(B)
                    r = A
                elif op == 'or':
                    r = A | B
                elif op == 'and':
                    r = A & B
                elif op == 'sub':
                    r = A - B
                else:
                    if hasattr(A, '__ior__') and OPERAND_KINDS[ka] in ('Set', 'TreeSet'):
                        A |= B
                    r = A
                out = _norm(r)
            except Exception as e:      # noqa
                out = 'raised ' + type(e).__name__
            pinned = [type(o).__name__ for o in W.nodes() if o._p_state == STICKY]
            return out, pinned
        want, _ = run(False)
        got, pinned = run(True)
        if got != want:
            fail('the result differs when operands are ghosts at the call', ctx, got, want)
        if pinned:
            fail('a node is left pinned after the call', dict(ctx, pinned=pinned[0]))


# ---------------------------------------------------------------------------
# C08: two concurrent transactions on one committed tree

_DEL = object()


def path_nodes(jar, root, key, cl, is_set):
    """oids of the stored interior nodes a write of `key` descends through,
    computed from the stored states with the model's comparison (independent of
    the implementation's own search)."""
    tree_cls = cl['TreeSet' if is_set else 'BTree']
    out = []
    node = root
    while type(node) is tree_cls:
        if node._p_oid is not None:
            out.append(node._p_oid)
        stt = node.__getstate__()
        if stt is None or len(stt) == 1:
            break
        items = stt[0]
        kids, seps = items[::2], items[1::2]
        i = 0
        while i < len(seps) and not klt(key, seps[i]):
            i += 1
        node = kids[i]
    return out


def txn_ops(is_set):
    return 3        # 0: insert / set value, 1: delete, 2: clear


def run_txn(t, m, op, k, is_set, jar, cl, kind, ctx, who):
    """perform one operation; -> (net change dict as list of (key, value|_DEL), logged readCurrent oids)"""
    before = m.copy()
    n0 = len(jar.log)
    want_path = path_nodes(jar, t, k, cl, is_set) if op in (0, 1) else None
    n0 = len(jar.log)
    try:
        with keys_mod.live():
            if op == 0:
                if is_set:
                    t.add(k)
                    m.set(k, None)
                else:
                    t[k] = VNEW + who
                    m.set(k, VNEW + who)
            elif op == 1:
                try:
                    if is_set:
                        t.remove(k)
                    else:
                        del t[k]
                except KeyError:
                    pass
                m.delete(k)
            else:
                t.clear()
                m.items = []
    except Exception as e:          # noqa
        fail('an operation inside a transaction raised %s' % type(e).__name__, ctx)
    rc = [o for (w, o) in jar.log[n0:] if w == 'readCurrent']
    if want_path is not None:
        for oid in want_path:
            if oid not in rc:
                fail('a write did not declare an interior node it descended through as a read dependency', dict(ctx, who=who, op=op))
    net = []
    for kk_, v in before.pairs():
        if not m.has(kk_):
            net.append((kk_, _DEL))
        elif not is_set and not (m.get(kk_) is v or m.get(kk_) == v):
            net.append((kk_, m.get(kk_)))
    for kk_, v in m.pairs():
        if not before.has(kk_):
            net.append((kk_, v))
    return net


def apply_net(base, net):
    r = base.copy()
    for k, v in net:
        if v is _DEL:
            r.delete(k)
        else:
            r.set(k, v)
    return r


def apply_op(model, op, k, is_set, who):
    r = model.copy()
    if op == 0:
        r.set(k, None if is_set else VNEW + who)
    elif op == 1:
        r.delete(k)
    else:
        r.items = []
    return r


def same_model(c, mm, is_set):
    return same_keys(c, mm.keys()) if is_set else same_pairs(c, mm.pairs())


def txn_pair(P, ks, a):
    op1 = common.choose(a['op1'], 3)
    op2 = common.choose(a['op2'], 3)
    with common.untraced():
        _txn_pair(P, ks, a, op1, op2)


def _txn_pair(P, ks, a, op1, op2):
    kind = P['kind']
    is_set = kind in ('TreeSet', 'Set')
    cl = h_step.classes(P)
    keys_mod.reset()
    kk = [K(k, i) for i, k in enumerate(ks)]
    x, y = K(a['x']), K(a['y'])
    ctx = {'harness': 'txn_pair', 'impl': P['impl'], 'kind': kind, 'op1': op1, 'op2': op2}
    st, W, t0, oid, base = stored_tree(P, ks, kk)
    J1, J2 = Jar(st), Jar(st)
    t1, t2 = J1.get(oid, cl[kind]), J2.get(oid, cl[kind])
    m1, m2 = base.copy(), base.copy()
    # pure reads declare nothing
    n0 = len(J1.log)
    with keys_mod.live():
        (x in t1), len(t1), list(t1.keys(x, y)), bool(t1)
        if not is_set:
            t1.get(y)
        for _ in t1:
            pass
    if any(w == 'readCurrent' for (w, o) in J1.log[n0:]):
        fail('a pure read declared a read dependency', ctx)
    net1 = run_txn(t1, m1, op1, x, is_set, J1, cl, kind, ctx, 1)
    net2 = run_txn(t2, m2, op2, y, is_set, J2, cl, kind, ctx, 2)
    try:
        J1.commit()
    except Exception as e:          # noqa
        fail('the first commit raised %s' % type(e).__name__, ctx)
        return
    try:
        J2.commit()
        outcome = 'committed'
    except ConflictError:
        outcome = 'conflict'
    except Exception as e:          # noqa
        fail('the second commit raised %s (not a conflict error)' % type(e).__name__, ctx)
        return
    ctx['outcome'] = outcome
    R = Jar(st)
    r = R.get(oid, cl[kind])
    c = read_all(r, is_set, 'third connection', ctx)
    if c is None:
        return
    if outcome == 'conflict':
        if not same_model(c, m1, is_set):
            fail('after a refused second commit the stored tree is not what the first transaction committed', ctx)
        check_view(r, m1, P, cl, is_set, 'stored tree after the refused commit', ctx)
        return
    serial = apply_op(m1, op2, y, is_set, 2)
    k1 = [k for k, _ in net1]
    disjoint = not any(keq(k, q) for k, _ in net2 for q in k1)
    merged = apply_net(apply_net(base, net1), net2) if disjoint else None
    if same_model(c, serial, is_set):
        final = serial
    elif merged is not None and same_model(c, merged, is_set):
        final = merged
    else:
        fail('both commits succeeded but the stored contents are neither the serial result nor the disjoint merge',
             ctx, common.show(c), common.show(serial.pairs()), common.show(merged.pairs()) if merged else None)
        return
    check_view(r, final, P, cl, is_set, 'stored tree after both commits', ctx)
