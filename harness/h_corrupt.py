"""C18: the checkers accept valid trees and detect every single corruption.

P: impl, kind, tpl, cls (corruption class), np, nq
ks: strictly increasing symbolic keys; a: p, q (position selectors), x (symbolic key)
The corruption is applied to the STATE of one node and loaded with __setstate__.
Oracle: the independent walker (engine.shapes.walk).
"""
from engine import shapes
from harness import common
from harness.common import fail, klt
from harness import keys as keys_mod
from harness.keys import K
from harness import h_step
from harness.h_step import prestate

CLASSES = ['key', 'swap', 'dup', 'sep', 'dropnext', 'redirect', 'empty', 'firstbucket', 'kind', 'emptynode']


def interior(tpl, acc=None):
    """interior nodes of a template in preorder"""
    acc = [] if acc is None else acc
    if tpl[0] == 'T':
        acc.append(tpl)
        for x in tpl[1][::2]:
            interior(x, acc)
    return acc


def positions(tpl, cls):
    """number of places where corruption class `cls` can be applied -> (np, nq)"""
    lv = shapes.leaves(tpl)
    nodes = interior(tpl)
    if cls == 'key':
        return sum(len(l) for l in lv), 1
    if cls == 'swap':
        return sum(len(l) - 1 for l in lv), 1
    if cls == 'dup':
        return sum(len(l) - 1 for l in lv) + max(0, len(lv) - 1), 1
    if cls == 'sep':
        return sum(len(n[1]) // 2 for n in nodes), 1
    if cls == 'dropnext':
        return max(0, len(lv) - 1), 1
    if cls == 'redirect':
        return (len(lv), len(lv)) if len(lv) > 1 else (0, 1)
    if cls == 'empty':
        return (len(lv), 1) if tpl[0] == 'T' else (0, 1)
    if cls == 'firstbucket':
        return (len(nodes), len(lv)) if len(lv) > 1 else (0, 1)
    if cls == 'kind':
        return sum((len(n[1]) + 1) // 2 for n in nodes if n[1][0][0] == 'B' and len(n[1]) >= 3), 1
    if cls == 'emptynode':
        # an empty interior node inserted as an additional child (before child ci, or after the last one) of a node
        # whose children are interior nodes, with the symbolic key x as the new separator
        return sum((len(n[1]) + 1) // 2 + 1 for n in nodes if n[1][0][0] == 'T'), 1
    raise KeyError(cls)


def collect(t, cl, is_set):
    """-> (interior node objects in preorder, leaf objects in descent order)"""
    tree_cls = cl['TreeSet' if is_set else 'BTree']
    nodes, lvs = [], []

    def rec(n):
        if type(n) is tree_cls:
            nodes.append(n)
            st = n.__getstate__()
            for x in st[0][::2]:
                rec(x)
        else:
            lvs.append(n)
    rec(t)
    return nodes, lvs


def leaf_items(b, is_set):
    st = b.__getstate__()
    d = st[0]
    nxt = st[1] if len(st) == 2 else None
    if is_set:
        return [(k, None) for k in d], nxt
    return [(d[i], d[i + 1]) for i in range(0, len(d), 2)], nxt


def set_leaf(b, items, nxt, is_set):
    if is_set:
        flat = tuple(k for k, _ in items)
    else:
        flat = tuple(x for kv in items for x in kv)
    b.__setstate__((flat,) if nxt is None else (flat, nxt))


def locate(lv, p, minus=0):
    """p-th (leaf, offset) pair counting len(leaf)-minus slots per leaf"""
    for li, l in enumerate(lv):
        n = len(l) - minus
        if p < n:
            return li, p
        p -= n
    return None


def corrupt_step(P, ks, a):
    p = common.choose(a['p'], P['np'])
    q = common.choose(a['q'], P['nq']) if P['nq'] > 1 else 0
    with common.untraced():
        _corrupt_step(P, ks, a, p, q)


def run_checkers(t):
    from BTrees.check import check as bt_check
    out = []
    for f in (t._check, lambda: bt_check(t)):
        try:
            f()
            out.append(None)
        except AssertionError:
            out.append('AssertionError')
        except Exception as e:      # noqa
            out.append(type(e).__name__)
    return out


def _corrupt_step(P, ks, a, p, q):
    kind = P['kind']
    is_set = kind == 'TreeSet'
    cl = h_step.classes(P)
    keys_mod.reset()
    kk = [K(k, i) for i, k in enumerate(ks)]
    cls = P['cls']
    ctx = {'harness': 'corrupt_step', 'impl': P['impl'], 'kind': kind, 'cls': cls, 'p': p, 'q': q}
    t, m, kobj = prestate(P, ks, False, kk)
    # pristine tree: accepted by everybody
    try:
        shapes.walk(t, cl, kind, None, None, lt=klt, check_sizes=False)
    except shapes.Unsound as e:
        raise RuntimeError('pristine pre-state unsound: %s' % (e.args[0],))
    r = run_checkers(t)
    if r != [None, None]:
        fail('a valid tree is rejected by a checker', dict(ctx, cls='pristine'), r)
        return
    if cls == 'pristine':
        return
    tpl = P['tpl']
    tg = shapes.tag_all(t)
    try:
        nodes, lvs = collect(t, cl, is_set)
        x = K(a['x']) if 'x' in a else None
        tl = shapes.leaves(tpl)
        if cls == 'key':
            li, off = locate(tl, p)
            items, nxt = leaf_items(lvs[li], is_set)
            items[off] = (x, items[off][1])
            set_leaf(lvs[li], items, nxt, is_set)
        elif cls == 'swap':
            li, off = locate(tl, p, 1)
            items, nxt = leaf_items(lvs[li], is_set)
            items[off], items[off + 1] = items[off + 1], items[off]
            set_leaf(lvs[li], items, nxt, is_set)
        elif cls == 'dup':
            inner = sum(len(l) - 1 for l in tl)
            if p < inner:
                li, off = locate(tl, p, 1)
                items, nxt = leaf_items(lvs[li], is_set)
                items[off + 1] = (items[off][0], items[off + 1][1])
                set_leaf(lvs[li], items, nxt, is_set)
            else:
                li = p - inner
                prev, _ = leaf_items(lvs[li], is_set)
                items, nxt = leaf_items(lvs[li + 1], is_set)
                items[0] = (prev[-1][0], items[0][1])
                set_leaf(lvs[li + 1], items, nxt, is_set)
        elif cls == 'sep':
            tn = interior(tpl)
            for ni, n in enumerate(tn):
                ns = len(n[1]) // 2
                if p < ns:
                    break
                p -= ns
            st = nodes[ni].__getstate__()
            items = list(st[0])
            items[2 * p + 1] = x
            nodes[ni].__setstate__((tuple(items), st[1]))
        elif cls == 'dropnext':
            items, nxt = leaf_items(lvs[p], is_set)
            set_leaf(lvs[p], items, None, is_set)
        elif cls == 'redirect':
            items, nxt = leaf_items(lvs[p], is_set)
            if (p + 1 < len(lvs) and q == p + 1):
                return              # not a corruption: the link it already has
            set_leaf(lvs[p], items, lvs[q], is_set)
        elif cls == 'empty':
            items, nxt = leaf_items(lvs[p], is_set)
            set_leaf(lvs[p], [], nxt, is_set)
        elif cls == 'firstbucket':
            st = nodes[p].__getstate__()
            if st[1] is lvs[q]:
                return              # the pointer it already has
            nodes[p].__setstate__((st[0], lvs[q]))
        elif cls == 'kind':
            tn = interior(tpl)
            cand = [(ni, ci) for ni, n in enumerate(tn) if n[1][0][0] == 'B' and len(n[1]) >= 3
                    for ci in range((len(n[1]) + 1) // 2)]
            ni, ci = cand[p]
            st = nodes[ni].__getstate__()
            items = list(st[0])
            leaf = items[2 * ci]
            w = cl[kind]()
            w.__setstate__(((leaf,), leaf))
            items[2 * ci] = w
            nodes[ni].__setstate__((tuple(items), st[1]))
        elif cls == 'emptynode':
            tn = interior(tpl)
            cand = [(ni, ci) for ni, n in enumerate(tn) if n[1][0][0] == 'T' for ci in range((len(n[1]) + 1) // 2 + 1)]
            ni, ci = cand[p]
            st = nodes[ni].__getstate__()
            items = list(st[0])
            nchild = (len(items) + 1) // 2
            if ci == nchild:
                items += [x, cl[kind]()]
            else:
                items[2 * ci:2 * ci] = [cl[kind](), x]
            nodes[ni].__setstate__((tuple(items), st[1]))
    finally:
        shapes.untag(tg)
    # oracle: independent walker on the corrupted structure
    try:
        shapes.walk(t, cl, kind, None, None, lt=klt, check_sizes=False)
        invalid = None
    except shapes.Unsound as e:
        invalid = str(e.args[0])
    except Exception as e:          # noqa
        invalid = 'walker could not read the structure (%s)' % type(e).__name__
    r = run_checkers(t)
    ctx.update(invalid=invalid, r_check=r[0], r_btcheck=r[1])
    if invalid is None:
        if r != [None, None]:
            fail('a tree that is still valid after the state change is rejected', ctx, r)
    else:
        if r[0] is None and r[1] is None:
            fail('corruption not detected by _check() nor check(): ' + invalid, ctx)
        elif 'AssertionError' not in r:
            fail('corruption reported, but not as AssertionError: ' + invalid, ctx, r)
