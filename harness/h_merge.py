"""C07: leaf conflict resolution = exact three-way merge or refusal.

P: kind ('Bucket'|'Set'|'BTree'|'TreeSet'), n = [na, nb, nc] (keys in the
   original, committed, new state), family
a: o0.., c0.., n0..   key payloads (each list strictly increasing by precondition)
   vo0.., vc0.., vn0.. value payloads (mappings)
   so, sc, sn          successor-link selector per state (0 none, 1 R1, 2 R2)
   eo, ec, en          an empty state is given as None instead of ((),)
Both implementations run on the same symbols inside one path.
"""
from engine import shapes
from harness import common
from harness.common import fail, keq, klt
from harness import keys as keys_mod
from harness.keys import K, PV

_CL = {}


def classes(family, impl):
    if (family, impl) not in _CL:
        _CL[(family, impl)] = shapes.classes(family, impl)
    return _CL[(family, impl)]


class Ref:
    """stands for a persistent reference to the successor leaf"""
    def __init__(self, n):
        self.n = n

    def __repr__(self):
        return 'Ref%d' % self.n


R = [None, Ref(1), Ref(2)]


def spec(old, com, new, is_set):
    """declarative three-way merge over lists of (key, value); -> list or None (refuse)."""
    def find(lst, k):
        for kk, vv in lst:
            if keq(kk, k):
                return (vv,)
        return None

    def same(x, y):
        if x is None or y is None:
            return x is None and y is None
        return is_set or x[0] is y[0] or x[0] == y[0]

    if not com or not new:
        return None                                  # a transaction emptied the leaf
    keys = []
    for lst in (old, com, new):
        for k, _ in lst:
            if not any(keq(k, q) for q in keys):
                keys.append(k)
    out = []
    for k in keys:
        o, c, n = find(old, k), find(com, k), find(new, k)
        cc, cn = not same(o, c), not same(o, n)
        if cc and cn:
            return None                              # both transactions touched the key
        v = c if cc else n
        if v is not None:
            out.append((k, v[0]))
    if old:
        m = old[0][0]
        if klt(m, com[0][0]) or klt(m, new[0][0]):
            return None                              # a transaction removed what was then the smallest key
    res = []
    for kv in out:
        i = 0
        while i < len(res) and klt(res[i][0], kv[0]):
            i += 1
        res.insert(i, kv)
    return res or None


def flat(lst, is_set):
    if is_set:
        return tuple(k for k, _ in lst)
    out = []
    for k, v in lst:
        out.append(k)
        out.append(v)
    return tuple(out)


def leaf_state(lst, nxt, is_set, as_none):
    if as_none and not lst and nxt is None:
        return None
    if nxt is None:
        return (flat(lst, is_set),)
    return (flat(lst, is_set), nxt)


def wrap(st, tree):
    if not tree or st is None:
        return st
    return ((st,),)


def run(cls, states, tree):
    from BTrees.Interfaces import BTreesConflictError
    try:
        r = cls()._p_resolveConflict(*states)
    except BTreesConflictError as e:
        return None, ('conflict', e.reason)
    except Exception as e:      # noqa: class compared between the implementations
        return None, ('raised', type(e).__name__)
    return r, None


def unflat(items, is_set):
    if is_set:
        return [(k, None) for k in items]
    if len(items) % 2:
        return None
    return [(items[i], items[i + 1]) for i in range(0, len(items), 2)]


def same_list(a, b, is_set):
    if a is None or b is None or len(a) != len(b):
        return False
    for (k1, v1), (k2, v2) in zip(a, b):
        if not keq(k1, k2):
            return False
        if not is_set and not (v1 is v2 or v1 == v2):
            return False
    return True


def merge_case(P, ks, a):
    sel = [common.choose(a[n], 3) if n in a else 0 for n in ('so', 'sc', 'sn')]
    asnone = [common.flag(a[n]) if n in a else False for n in ('eo', 'ec', 'en')]
    with common.untraced():
        _merge_case(P, a, sel, asnone)


def _merge_case(P, a, sel, asnone):
    kind = P['kind']
    is_set = kind in ('Set', 'TreeSet')
    tree = kind in ('BTree', 'TreeSet')
    keys_mod.reset()
    lists = []
    for g, (pk, pv, n) in enumerate((('o', 'vo', P['n'][0]), ('c', 'vc', P['n'][1]), ('n', 'vn', P['n'][2]))):
        lst = []
        for i in range(n):
            k = K(a['%s%d' % (pk, i)], i, g + 1)
            v = None if is_set else (PV if P.get('values') == 'partial' else K)(a['%s%d' % (pv, i)], None, 9)
            lst.append((k, v))
        lists.append(lst)
    old, com, new = lists
    nxt = [R[s] for s in sel]
    states = [wrap(leaf_state(l, x, is_set, n), tree) for l, x, n in zip(lists, nxt, asnone)]
    ctx = {'harness': 'merge_case', 'kind': kind, 'n': P['n']}
    want = spec(old, com, new, is_set)
    if not (nxt[0] is nxt[1] is nxt[2]):
        want = None                                  # successor link differs
    results = {}
    for impl in ('c', 'py'):
        cl = classes(P['family'], impl)
        got, err = run(cl[kind], states, tree)
        results[impl] = (got, err)
        c = dict(ctx, impl=impl)
        if err is not None and err[0] == 'raised':
            fail('conflict resolution raised %s instead of merging or refusing' % err[1], c)
            continue
        if want is None:
            if err is None:
                fail('merged although the three-way merge is not defined (must refuse)', c, common.show(got))
            continue
        if err is not None:
            fail('refused (reason %s) although both change sets are disjoint and mergeable' % (err[1],), c)
            continue
        st = got
        if tree:
            if not (isinstance(st, tuple) and len(st) == 1 and isinstance(st[0], tuple) and len(st[0]) == 1):
                fail('tree-level result is not ((leafstate,),)', c, common.show(got))
                continue
            st = st[0][0]
        if not isinstance(st, tuple) or len(st) not in (1, 2):
            fail('result is not a leaf state', c, common.show(got))
            continue
        if (st[1] if len(st) == 2 else None) is not nxt[0]:
            fail('result does not keep the successor link', c)
        items = unflat(st[0], is_set)
        if not same_list(items, want, is_set):
            fail('merged state differs from original + both change sets', c, common.show(items), common.show(want))
        # never drops, invents or reorders: asserted independently of the spec
        ik = [k for k, _ in (items or [])]
        for x, y in zip(ik, ik[1:]):
            if not klt(x, y):
                fail('merged keys are not strictly ascending', c)
        for k in ik:
            if not any(k is q for l in lists for q, _ in l):
                fail('merged state contains a key object that is in none of the three states', c)
    (gc_, ec_), (gp_, ep_) = results['c'], results['py']
    if (ec_ is None) != (ep_ is None):
        fail('C and Python take different decisions', ctx, ec_, ep_)
    elif ec_ is not None and ec_ != ep_:
        fail('C and Python refuse with different reason codes', ctx, ec_, ep_)


# ---------------------------------------------------------------------------
# malformed states and multi-leaf tree states: the three states are solver-chosen
# selectors into a palette of state shapes

def palette(kind):
    is_set = kind in ('Set', 'TreeSet')
    tree = kind in ('BTree', 'TreeSet')
    good = ((1, 2, 3),) if is_set else ((1, 10, 2, 20, 3, 30),)
    good2 = ((1, 2, 3, 4),) if is_set else ((1, 10, 2, 20, 3, 30, 4, 40),)
    if not tree:
        return [None, good, good2, (), ((),), 5, 'abc', [1, 2], (1,), (good,), (good[0], None, None),
                ((3, 2, 1),) if is_set else ((1, 2, 3, 4, 5),)]
    return [None, ((good,),), ((good2,),), (good,), ((good,), None), (((good,),),), 5, (), ((),), (((),),),
            (('x', 1, 'y'), 'x'), ((good, good),)]


def malformed_case(P, ks, a):
    kind = P['kind']
    pal = palette(kind)
    idx = [common.choose(a['i%d' % j], len(pal)) for j in range(3)]
    with common.untraced():
        tr = [pal[i] for i in idx]
        res = []
        for impl in ('c', 'py'):
            cl = classes(P['family'], impl)
            got, err = run(cl[kind], tr, kind in ('BTree', 'TreeSet'))
            res.append(('ok', got) if err is None else err)
        ctx = {'harness': 'malformed_case', 'kind': kind, 'idx': idx, 'c': res[0] if res[0][0] != 'ok' else ('ok',),
               'py': res[1] if res[1][0] != 'ok' else ('ok',)}
        # decision = merged | refused.  For malformed input any exception is a refusal (ZODB
        # treats every exception raised during resolution as an unresolved conflict); the
        # exception CLASS for garbage input is not part of the property.
        if (res[0][0] == 'ok') != (res[1][0] == 'ok'):
            fail('C and Python take different decisions (merge vs refuse) on a malformed / multi-leaf state triple', ctx, repr(tr), res)
        elif res[0][0] == 'ok' and res[0][1] != res[1][1]:
            fail('C and Python merge a state triple to different results', ctx, repr(tr), res)
        elif res[0][0] == 'conflict' and res[1][0] == 'conflict' and res[0] != res[1]:
            fail('C and Python refuse with different reason codes', ctx, repr(tr), res)
        if kind in ('BTree', 'TreeSet') and any(isinstance(t, tuple) and len(t) == 2 for t in tr):
            # a multi-leaf tree state anywhere: never merged
            for r in res:
                if r[0] == 'ok':
                    fail('a multi-leaf tree state was merged', ctx, repr(tr))
