"""Property registry: which families to build, how obligations are generated,
and what the evidence says about the claim."""
import random

from engine import shapes

_CAT = {}
FAILED = []     # (kind, L, I, history, error): histories on which the catalogue search saw the real code misbehave


def cat(family, impl, kind, N, L, I):
    key = (family, impl, kind, N, L, I)
    if key not in _CAT:
        cl = shapes.classes(family, impl)
        shapes.set_sizes(cl, L, I)
        c, st = shapes.catalogue(cl, kind, N, sizes=(L, I))
        for h, e in st.pop('failed'):
            ent = (kind, L, I, h, e)
            if ent not in FAILED:
                FAILED.append(ent)
        _CAT[key] = (c, st)
    return _CAT[key]


def pick_shapes(tier, seed, L=2, I=2, family='OO', kind='BTree', quick_extra=10, thoroughN=6):
    """-> list of (tag, template, history), stats.  The catalogue is computed on the
    compiled class; the Python catalogue must be identical (checked by C09)."""
    c5, st5 = cat(family, 'c', kind, 5, L, I)
    core = shapes.stratify(c5, L, I)
    c6, st6 = cat(family, 'c', kind, 6, L, I)
    core6 = [s for s in shapes.stratify_large(c6, L, I) if s not in core]
    # four-level shapes only exist from six keys on: the SMALLEST N=6 shapes with the deep features.  They carry their
    # own tag: the generators give 'core' shapes extra (expensive) obligations, which explode on four-level trees
    deep = [s for s in shapes.stratify(c6, L, I, want={'depth4', 'two_nonfirst_steps_first_leaf_1', 'nonfirst_bottom_first_leaf_1'})
            if s not in core and s not in core6]
    out = [('core', s, c5[s]) for s in core] + [('core', s, c6[s]) for s in core6] + [('deep', s, c6[s]) for s in deep]
    stats = {'catalogue_N5': st5, 'catalogue_N6': st6, 'L': L, 'I': I}
    chosen = set(core) | set(core6) | set(deep)
    if tier == 'quick':
        rest = sorted((s for s in c5 if s not in chosen), key=repr)
        rnd = random.Random(seed)
        rnd.shuffle(rest)
        out += [('rot', s, c5[s]) for s in rest[:quick_extra]]
    else:
        src = c6 if thoroughN == 6 else c5
        out += [('all', s, src[s]) for s in sorted(src, key=repr) if s not in chosen]
    stats['shapes_used'] = len(out)
    return out, stats


def failed_history_obligations(pid, impls=('c', 'py')):
    """histories on which the catalogue search saw the real code misbehave ->
    solver-run obligations (re-keyed history, full oracle); normally none."""
    obs = []
    for n, (kind, L, I, hist, err) in enumerate(FAILED[:16]):
        N = max(k for _, k in hist) + 1
        for impl in impls:
            P = dict(family='OO', impl=impl, kind=kind, L=L, I=I, hist=hist, catalogue_error=err)
            obs.append(dict(id='%s/%s/%s/history%d' % (pid, impl, kind, n), mod='h_step', fn='history', nk=N,
                            args=[], params=P, timeout=60))
    return obs


def sid(tpl):
    import hashlib
    return hashlib.sha1(repr(tpl).encode()).hexdigest()[:8]


# ---------------------------------------------------------------------------
# C01 / C03: one step from every catalogue shape

MAP_GROUPS = [('write', 3, ['x']), ('del', 4, ['x']), ('read', 10, ['x']), ('bulk', 3, ['x', 'y'])]
SET_GROUPS = [('write', 3, ['x', 'y']), ('del', 3, ['x']), ('read', 7, ['x', 'y']), ('inplace', 4, ['x', 'y'])]


def step_obligations(pid, tier, seed, check, mutating_only=False):
    obs = []
    bounds = {}
    timeout = 90 if tier == 'quick' else 600
    for kind, groups in (('BTree', MAP_GROUPS), ('TreeSet', SET_GROUPS)):
        sh, st = pick_shapes(tier, seed, 2, 2, 'OO', kind, quick_extra=8 if kind == 'BTree' else 3)
        bounds['shapes_' + kind] = st
        for impl in ('c', 'py'):
            for tag, tpl, hist in sh:
                m = shapes.n_ranks(tpl)
                for g, nops, argn in groups:
                    if mutating_only and g == 'read':
                        continue
                    if g == 'inplace' and m > 3:
                        argn = ['x']
                    args = [(n, 'int') for n in argn] + [('op', 'int')]
                    pre = ['0 <= op < %d' % nops]
                    P = dict(family='OO', impl=impl, kind=kind, tpl=tpl, L=2, I=2, group=g, prov='loaded', check=check)
                    obs.append(dict(id='%s/%s/%s/%s/%s/%s' % (pid, impl, kind, tag, sid(tpl), g), mod='h_step', fn='step',
                                    nk=m, args=args, pre=pre, params=P, timeout=timeout))
    # None as the smallest key / as the argument, on the core shapes
    sh, st = pick_shapes(tier, seed, 2, 2, 'OO', 'BTree', quick_extra=0)
    for impl in ('c', 'py'):
        for kind, groups in (('BTree', MAP_GROUPS), ('TreeSet', SET_GROUPS)):
            for tag, tpl, hist in sh:
                if tag != 'core' and tier == 'quick':
                    continue
                m = shapes.n_ranks(tpl)
                if m > 4 and tier == 'quick':
                    continue
                for g, nops, argn in groups:
                    if g in ('bulk', 'inplace') or (mutating_only and g == 'read'):
                        continue
                    args = [(n, 'int') for n in argn] + [('op', 'int'), ('xnone', 'bool'), ('none0', 'bool')]
                    P = dict(family='OO', impl=impl, kind=kind, tpl=tpl, L=2, I=2, group=g, prov='loaded', check=check)
                    obs.append(dict(id='%s/%s/%s/none/%s/%s' % (pid, impl, kind, sid(tpl), g), mod='h_step', fn='step',
                                    nk=m, args=args, pre=['0 <= op < %d' % nops], params=P, timeout=timeout))
    # leaves on their own
    for impl in ('c', 'py'):
        for kind, groups in (('Bucket', MAP_GROUPS), ('Set', SET_GROUPS)):
            for n in (0, 1, 3):
                for g, nops, argn in groups:
                    if mutating_only:
                        continue
                    args = [(a, 'int') for a in argn] + [('op', 'int')] + \
                        ([('none0', 'bool')] if g == 'inplace' else [('xnone', 'bool'), ('none0', 'bool')])
                    P = dict(family='OO', impl=impl, kind=kind, n=n, group=g, check='model')
                    obs.append(dict(id='%s/%s/%s/n%d/%s' % (pid, impl, kind, n, g), mod='h_step', fn='step',
                                    nk=n, args=args, pre=['0 <= op < %d' % nops], params=P, timeout=timeout))
    # grown provenance (history replayed through the API with re-keyed keys) + other node sizes
    sizes = [(2, 2), (3, 2)] if tier == 'quick' else [(2, 2), (3, 2), (2, 3), (4, 2), (2, 4)]
    for (L, I) in sizes:
        for kind, groups in (('BTree', MAP_GROUPS), ('TreeSet', SET_GROUPS)):
            c, st = cat('OO', 'c', kind, 5 if tier == 'quick' else 6, L, I)
            core = shapes.stratify_large(c, L, I) if (L, I) != (2, 2) or tier != 'quick' else shapes.stratify(c, L, I)
            if tier == 'quick' and (L, I) != (2, 2):
                # a few shapes with spare room in their leaves (node size 3)
                core = [s_ for s_ in shapes.stratify(c, L, I) if s_[0] == 'T'][:(5 if kind == 'BTree' else 3)]
            if tier != 'quick' and (L, I) != (2, 2):
                core = sorted(c, key=repr)
                bounds['shapes_%s_%d_%d' % (kind, L, I)] = st
            for impl in ('c', 'py'):
                for tpl in core:
                    hist = c[tpl]
                    N = (max(k for _, k in hist) + 1) if hist else 0
                    for g, nops, argn in groups:
                        if g == 'read':
                            continue
                        if g == 'inplace' and N > 3:
                            argn = ['x']
                        args = [(a, 'int') for a in argn] + [('op', 'int')]
                        P = dict(family='OO', impl=impl, kind=kind, tpl=tpl, L=L, I=I, group=g, prov='grown',
                                 hist=hist, check=check)
                        obs.append(dict(id='%s/%s/%s/grown%d%d/%s/%s' % (pid, impl, kind, L, I, sid(tpl), g), mod='h_step',
                                        fn='step', nk=N, args=args, pre=['0 <= op < %d' % nops], params=P, timeout=timeout))
    # from empty: k symbolic operations, insert/delete selector symbolic
    k = 4 if tier == 'quick' else 5
    for impl in ('c', 'py'):
        for kind in ('BTree', 'TreeSet', 'Bucket', 'Set'):
            args = []
            for i in range(k):
                args += [('x%d' % i, 'int'), ('d%d' % i, 'bool')]
            P = dict(family='OO', impl=impl, kind=kind, L=2, I=2, k=k, check=check)
            obs.append(dict(id='%s/%s/%s/from_empty_k%d' % (pid, impl, kind, k), mod='h_step', fn='from_empty', nk=0,
                            args=args, params=P, timeout=timeout * 2))
    bounds.update(node_sizes=sizes, from_empty_k=k, per_condition_timeout_s=timeout)
    obs += failed_history_obligations(pid)
    if pid == 'C01':
        obs += leaf_ir_obligations(pid, tier, 'get') + leaf_ir_obligations(pid, tier, 'set')
        obs += tree_ir_obligations(pid, tier, ['contents'], sets=True)
        # tree-level lookup of the native families from IR, on catalogue templates (and their stale-separator variants)
        c5, _ = cat('OO', 'c', 'BTree', 5, 2, 2)
        tpls = [s_ for s_ in shapes.stratify(c5, 2, 2) if s_[0] != 'E' and shapes.n_ranks(s_) <= (4 if tier == 'quick' else 5)]
        if tier != 'quick':
            c6, _ = cat('OO', 'c', 'BTree', 6, 2, 2)
            tpls += [s_ for s_ in shapes.stratify_large(c6, 2, 2) if s_ not in tpls and shapes.n_ranks(s_) <= 6]
        tpls += [v for v in (shapes.stale_variant(s_) for s_ in list(tpls)) if v is not None and shapes.n_ranks(v) <= (5 if tier == 'quick' else 7)]
        tpls = [tp for i_, tp in enumerate(tpls) if tp not in tpls[:i_]]
        for fam in (['II', 'UU', 'LL', 'QQ'] if tier == 'quick' else ['II', 'UU', 'LL', 'QQ', 'IU', 'LQ']):
            for tp in tpls:
                for hk in (0, 1):
                    mm = shapes.n_ranks(tp)
                    obs.append(dict(id='%s/ir/%s/tree_get/%s/hk%d' % (pid, fam, sid(tp), hk), engine='llsym', mod='h_kernel', fn='tree_native', nk=0,
                                    args=[('n', 'int')] + [('k%d' % i, 'int') for i in range(mm)],
                                    params=dict(family=fam, kernel='tree_get', tpl=tp, has_key=hk), timeout=300 if tier == 'quick' else 600))
        bounds['ir_leaf_kernels'] = '_bucket_get on leaves of 0..3 (thorough 0..6) symbolic native keys, II UU LL QQ (thorough + IU UI LQ QL)'
    return {'obligations': obs, 'bounds': bounds}


def sound_obligations(pid, tier, seed):
    """C03: the induction step on object keys plus accepted / rejected writes of the native families (a write that the
    value conversion rejects after the tree has made room for it must leave a sound tree)."""
    from harness import h_repr
    r = step_obligations(pid, tier, seed, 'sound', mutating_only=True)
    npal = len(h_repr.INTS + h_repr.FLOATS + h_repr.OTHERS) + 1
    t = 200 if tier == 'quick' else 600
    for fam in (['II', 'OI', 'IF', 'LL'] if tier == 'quick' else ['II', 'OI', 'IF', 'LL']):
        for impl in ('c', 'py'):
            for kind in ('BTree', 'TreeSet') if tier == 'quick' else ('BTree', 'Bucket', 'TreeSet', 'Set'):
                ne = len(h_repr.NS_ENTRIES if kind in ('Set', 'TreeSet') else h_repr.N_ENTRIES)
                for n0 in (0, 3):
                    r['obligations'].append(dict(id='%s/native/%s/%s/%s/n%d' % (pid, fam, impl, kind, n0), mod='h_repr', fn='native', nk=0,
                                                 args=[('e', 'int'), ('p', 'int')], pre=['0 <= e < %d' % ne, '0 <= p < %d' % npal],
                                                 params=dict(family=fam, kind=kind, impl=impl, n0=n0), timeout=t))
    r['obligations'] += tree_ir_obligations(pid, tier, ['sound'], big=False, fams=['II', 'LL'] if tier == 'quick' else ['II', 'UU', 'LL', 'QQ'], sets=True)
    r['bounds']['ir_tree'] = '_BTree_set from IR on the stratified (2,2) catalogue core + stale-separator variants + (3,2) shapes, fully symbolic words'
    r['bounds']['native_families'] = 'II OI IF LL: every writing entry point x a palette of %d representable / unrepresentable arguments, from 0 and 3 entries' % npal
    return r


# ---------------------------------------------------------------------------
# C02: range searches, minKey/maxKey, lazy sequences

THOROUGH_CAP = {}       # property id -> max number of non-core shapes per (kind, node size) in the thorough tier


def tree_shapes(tier, seed, kinds=('BTree', 'TreeSet'), quick_extra=(8, 3), maxranks_quick=None, sizes=None, cap=None, l3=3):
    """-> list of (kind, tag, tpl, hist, L, I), bounds.  cap: the thorough tier takes the stratified core plus a
    VERIF_SEED-rotated sample of `cap` further shapes of each complete catalogue (None = the complete catalogue)."""
    out = []
    bounds = {}
    rnd = random.Random(seed)
    for kind, qe in zip(kinds, quick_extra):
        sh, st = pick_shapes(tier, seed, 2, 2, 'OO', kind, quick_extra=qe)
        bounds['shapes_' + kind] = st
        if tier != 'quick' and cap is not None:
            core_ = [x for x in sh if x[0] == 'core']
            rest = [x for x in sh if x[0] != 'core']
            rnd.shuffle(rest)
            sh = core_ + rest[:cap]
            bounds['shapes_' + kind + '_used'] = '%d core + %d sampled of %d' % (len(core_), len(rest[:cap]), len(rest))
        for tag, tpl, hist in sh:
            if tier == 'quick' and maxranks_quick and shapes.n_ranks(tpl) > maxranks_quick and tag != 'core':
                continue
            out.append((kind, tag, tpl, hist, 2, 2))
        if tier == 'quick' and l3:
            # leaves with spare room (node size 3): behaviour that needs slack in a leaf is invisible at size 2
            c32, st32 = cat('OO', 'c', kind, 5, 3, 2)
            bounds['shapes_%s_3_2_N5' % kind] = st32
            pick = [s_ for s_ in shapes.stratify(c32, 3, 2) if s_[0] == 'T' and shapes.n_ranks(s_) <= 5]
            for s_ in pick[:l3]:
                out.append((kind, 'l3', s_, c32[s_], 3, 2))
    if tier != 'quick':
        for (L, I) in (sizes or [(3, 2), (2, 3)]):
            for kind in kinds:
                c, st = cat('OO', 'c', kind, 6, L, I)
                bounds['shapes_%s_%d_%d' % (kind, L, I)] = st
                tpls = sorted(c, key=repr)
                if cap is not None and len(tpls) > cap // 2:
                    core_ = shapes.stratify(c, L, I)
                    rest = [x for x in tpls if x not in core_]
                    rnd.shuffle(rest)
                    tpls = core_ + rest[:cap // 2]
                    bounds['shapes_%s_%d_%d_used' % (kind, L, I)] = '%d core + %d sampled of %d' % (len(core_), len(rest[:cap // 2]), len(rest))
                for tpl in tpls:
                    out.append((kind, 'all%d%d' % (L, I), tpl, c[tpl], L, I))
    return out, bounds


def range_obligations(pid, tier, seed):
    obs = []
    timeout = 120 if tier == 'quick' else 600
    sh, bounds = tree_shapes(tier, seed, quick_extra=(4, 2), cap=60)
    RARGS = [('lo', 'int'), ('hi', 'int'), ('lom', 'int'), ('him', 'int'), ('exmin', 'bool'), ('exmax', 'bool')]
    RPRE = ['0 <= lom < 3', '0 <= him < 3']
    for impl in ('c', 'py'):
        for kind, tag, tpl, hist, L, I in sh:
            m = shapes.n_ranks(tpl)
            P = dict(family='OO', impl=impl, kind=kind, tpl=tpl, L=L, I=I, prov='loaded')
            base = '%s/%s/%s/%s%s/%s' % (pid, impl, kind, tag, '' if (L, I) == (2, 2) else '', sid(tpl))
            obs.append(dict(id=base + '/range', mod='h_range', fn='range_step', nk=m, args=RARGS, pre=RPRE,
                            params=P, timeout=timeout))
            obs.append(dict(id=base + '/minmax', mod='h_range', fn='minmax_step', nk=m,
                            args=[('lo', 'int'), ('bm', 'int'), ('which', 'int')],
                            pre=['0 <= bm < 3', '0 <= which < 2'], params=P, timeout=timeout))
            if (tag == 'core' and m <= 5) or tier != 'quick':
                obs.append(dict(id=base + '/seq', mod='h_range', fn='seq_step', nk=m,
                                args=[('lo', 'int'), ('hi', 'int'), ('lom', 'int'), ('him', 'int'),
                                      ('exmin', 'bool'), ('exmax', 'bool')],
                                pre=['0 <= lom < 2', '0 <= him < 2'], params=P, timeout=timeout))
            # None stored as the smallest key
            if (tag == 'core' and m <= 4) or (tier != 'quick' and tag == 'core'):
                obs.append(dict(id=base + '/range_none0', mod='h_range', fn='range_step', nk=m,
                                args=RARGS + [('none0', 'bool')], pre=RPRE, params=P, timeout=timeout))
                obs.append(dict(id=base + '/minmax_none0', mod='h_range', fn='minmax_step', nk=m,
                                args=[('lo', 'int'), ('bm', 'int'), ('which', 'int'), ('none0', 'bool')],
                                pre=['0 <= bm < 3', '0 <= which < 2'], params=P, timeout=timeout))
            # stale separators (legal stored trees whose separators are not stored keys)
            if tag == 'core' or tier != 'quick':
                sv = shapes.stale_variant(tpl)
                if sv is not None and (tier != 'quick' or shapes.n_ranks(sv) <= 7):
                    Ps = dict(P, tpl=sv)
                    ms = shapes.n_ranks(sv)
                    obs.append(dict(id=base + '/minmax_stale', mod='h_range', fn='minmax_step', nk=ms,
                                    args=[('lo', 'int'), ('bm', 'int'), ('which', 'int')],
                                    pre=['0 <= bm < 3', '0 <= which < 2'], params=Ps, timeout=timeout))
                    if tier != 'quick' or ms <= 5:
                        obs.append(dict(id=base + '/range_stale', mod='h_range', fn='range_step', nk=ms, args=RARGS,
                                        pre=RPRE, params=Ps, timeout=timeout))
            # grown provenance for the core shapes: the pre-state is produced by the public API
            if tag == 'core' and hist is not None:
                N = (max(k for _, k in hist) + 1) if hist else 0
                Pg = dict(P, prov='grown', hist=hist)
                if tier != 'quick' or N <= 4:
                    obs.append(dict(id=base + '/range_grown', mod='h_range', fn='range_step', nk=N, args=RARGS, pre=RPRE,
                                    params=Pg, timeout=timeout))
                obs.append(dict(id=base + '/minmax_grown', mod='h_range', fn='minmax_step', nk=N,
                                args=[('lo', 'int'), ('bm', 'int'), ('which', 'int')],
                                pre=['0 <= bm < 3', '0 <= which < 2'], params=Pg, timeout=timeout))
        for kind in ('Bucket', 'Set'):
            for n in ((0, 1, 3) if tier == 'quick' else (0, 1, 2, 3, 4, 5)):
                P = dict(family='OO', impl=impl, kind=kind, n=n)
                base = '%s/%s/%s/n%d' % (pid, impl, kind, n)
                obs.append(dict(id=base + '/range', mod='h_range', fn='range_step', nk=n,
                                args=RARGS + [('none0', 'bool')], pre=RPRE, params=P, timeout=timeout))
                obs.append(dict(id=base + '/minmax', mod='h_range', fn='minmax_step', nk=n,
                                args=[('lo', 'int'), ('bm', 'int'), ('which', 'int'), ('none0', 'bool')],
                                pre=['0 <= bm < 3', '0 <= which < 2'], params=P, timeout=timeout))
    bounds.update(per_condition_timeout_s=timeout, index_range='every i, j in [-n-2, n+1] and open slice ends, all ordered pairs of consecutive accesses')
    obs += leaf_ir_obligations(pid, tier, 'range')
    # engine E2 at tree level: BTree_findRangeEnd of the native-key families from IR on catalogue templates
    c5_, _ = cat('OO', 'c', 'BTree', 5, 2, 2)
    c6_, _ = cat('OO', 'c', 'BTree', 6, 2, 2)
    base_ = [s_ for s_ in shapes.stratify(c5_, 2, 2) if s_[0] != 'E']
    base_ += [s_ for s_ in shapes.stratify_large(c6_, 2, 2) if s_ not in base_]
    big_ = [s_ for s_ in sorted(c5_ if tier == 'quick' else c6_, key=repr) if s_ not in base_ and s_[0] != 'E']
    stale_ = [v for v in (shapes.stale_variant(s_) for s_ in base_) if v is not None and shapes.n_ranks(v) <= (9 if tier == 'quick' else 12)]
    fams_ = ['II', 'UU', 'LL', 'QQ'] if tier == 'quick' else ['II', 'UU', 'LL', 'QQ', 'IU', 'LQ']
    for fam in fams_:
        if tier == 'quick':
            # quick: first family = core + stale variants + the rest of the N=5 catalogue up to 4 keys; last family = core + stale;
            # the two in between = core shapes up to 4 keys
            tps = (base_ + stale_ + [s_ for s_ in big_ if shapes.n_ranks(s_) <= 4]) if fam == fams_[0] else \
                (base_ + stale_) if fam == fams_[-1] else [s_ for s_ in base_ if shapes.n_ranks(s_) <= 4]
        else:
            tps = base_ + stale_ + (big_ if fam == fams_[0] else [])
        for tp in tps:
            mm = shapes.n_ranks(tp)
            for low in (0, 1):
                for ex in (0, 1):
                    oid = '%s/ir/%s/tree_range/%s/low%d/ex%d' % (pid, fam, sid(tp), low, ex)
                    if any(o_['id'] == oid for o_ in obs[-4 * len(tps):]):
                        continue
                    obs.append(dict(id=oid, engine='llsym', mod='h_kernel', fn='tree_range_native', nk=0,
                                    args=[('n', 'int')] + [('k%d' % i, 'int') for i in range(mm)],
                                    params=dict(family=fam, kernel='tree_range', tpl=tp, low=low, exclude=ex), timeout=300 if tier == 'quick' else 900))
    bounds['ir_tree_range'] = 'BTree_findRangeEnd from IR: stratified core + stale-separator variants (all families), complete N=%d catalogue (first family)' % (5 if tier == 'quick' else 6)
    bounds['ir_leaf_kernels'] = 'Bucket_findRangeEnd (low/high end, inclusive/exclusive) on leaves of 0..3 (thorough 0..6) symbolic native keys'
    return {'obligations': obs, 'bounds': bounds}


# ---------------------------------------------------------------------------
# C19: Length

def length_obligations(pid, tier, seed):
    t = 120 if tier == 'quick' else 600
    obs = [dict(id=pid + '/resolve', mod='h_length', fn='resolve', nk=0,
                args=[('old', 'int'), ('da', 'int'), ('db', 'int'), ('dc', 'int')], params={}, timeout=t)]
    for k in ((1, 2, 3) if tier == 'quick' else (1, 2, 3, 4)):
        args = [('v0', 'int'), ('default', 'bool')]
        pre = []
        for i in range(k):
            args += [('op%d' % i, 'int'), ('x%d' % i, 'int')]
            pre.append('0 <= op%d < 6' % i)
        obs.append(dict(id='%s/cell_k%d' % (pid, k), mod='h_length', fn='cell', nk=0, args=args, pre=pre,
                        params={'k': k}, timeout=t))
    return {'obligations': obs, 'bounds': {'integers': 'unbounded (z3 Int)', 'cell_sequence_length': [o['params'].get('k') for o in obs[1:]],
                                           'cell_ops': ['set', 'change', '__call__', '__getstate__', '__setstate__', 'state round-trip into a live object']}}


# ---------------------------------------------------------------------------
# C07: three-way merge of leaves

def merge_obligations(pid, tier, seed):
    obs = []
    t = 300 if tier == 'quick' else 600
    mx = 2 if tier == 'quick' else 3
    for kind in ('Bucket', 'Set', 'BTree', 'TreeSet'):
        is_set = kind in ('Set', 'TreeSet')
        for na in range(0, mx + 1):
            for nb in range(0, mx + 1):
                for nc in range(0, mx + 1):
                    tot = na + nb + nc
                    if kind in ('BTree', 'TreeSet') and (tier == 'quick' and tot > 4):
                        continue     # the tree entry points unwrap and delegate to the leaf code
                    if tier != 'quick' and not is_set and tot > 7:
                        continue
                    args, pre = [], []
                    for pk, pv, n in (('o', 'vo', na), ('c', 'vc', nb), ('n', 'vn', nc)):
                        for i in range(n):
                            args.append(('%s%d' % (pk, i), 'int'))
                            if not is_set:
                                args.append(('%s%d' % (pv, i), 'int'))
                        if n > 1:
                            pre.append(' < '.join('%s%d' % (pk, i) for i in range(n)))
                    args0, pre0 = list(args), list(pre)
                    extra = tot <= 3
                    if extra:
                        # "empty state given as None" only exists for an empty state: no flag (and no fork) otherwise
                        args += [('so', 'int'), ('sc', 'int'), ('sn', 'int')] + \
                            [(f_, 'bool') for f_, n_ in (('eo', na), ('ec', nb), ('en', nc)) if n_ == 0]
                        pre += ['0 <= so < 3', '0 <= sc < 3', '0 <= sn < 3']
                    elif tot <= 5:
                        args += [('so', 'int'), ('sn', 'int')]
                        pre += ['0 <= so < 2', '0 <= sn < 2']
                    P = dict(family='OO', kind=kind, n=[na, nb, nc])
                    obs.append(dict(id='%s/%s/%d%d%d' % (pid, kind, na, nb, nc), mod='h_merge', fn='merge_case', nk=0,
                                    args=args, pre=pre, params=P, timeout=t))
                    if not is_set and kind == 'Bucket' and 3 <= tot <= (4 if tier == 'quick' else 6) and min(na, nb, nc) >= 1:
                        # values that are only partially ordered (equal or incomparable, like frozensets / NaN)
                        obs.append(dict(id='%s/%s/%d%d%d/pv' % (pid, kind, na, nb, nc), mod='h_merge', fn='merge_case', nk=0,
                                        args=args0, pre=pre0, params=dict(P, values='partial'), timeout=t))
        obs.append(dict(id='%s/%s/malformed' % (pid, kind), mod='h_merge', fn='malformed_case', nk=0,
                        args=[('i0', 'int'), ('i1', 'int'), ('i2', 'int')],
                        pre=['0 <= i0 < 12', '0 <= i1 < 12', '0 <= i2 < 12'], params=dict(family='OO', kind=kind), timeout=t))
    return {'obligations': obs, 'bounds': {'max_keys_per_state': mx, 'values': 'symbolic, compared through ==/<',
                                           'successor_links': 'selector over {none, R1, R2} per state when total keys <= 3, '
                                           '{none, R1} for original/new when <= 5', 'malformed_palette': 12}}


# ---------------------------------------------------------------------------
# C10: set algebra

def setop_obligations(pid, tier, seed):
    obs = []
    t = 200 if tier == 'quick' else 600
    mx = 2 if tier == 'quick' else 3
    kinds = ['Set', 'TreeSet', 'Bucket', 'BTree', 'list', 'iter', 'None']
    for impl in ('c', 'py'):
        for ka in kinds:
            for kb in kinds:
                for na in range(0, mx + 1):
                    for nb in range(0, mx + 1):
                        if (ka == 'None' and na) or (kb == 'None' and nb):
                            continue
                        if tier == 'quick' and na + nb > 3 and ('list' in (ka, kb) or 'iter' in (ka, kb)) and not (na == 2 and nb == 2 and ka != kb):
                            continue
                        # multi-leaf trees need 3 keys at leaf size 2
                        args = [('a%d' % i, 'int') for i in range(na)] + [('b%d' % i, 'int') for i in range(nb)]
                        pre = []
                        if ka in ('Set', 'TreeSet', 'Bucket', 'BTree') and na > 1:
                            pre.append(' < '.join('a%d' % i for i in range(na)))
                        if kb in ('Set', 'TreeSet', 'Bucket', 'BTree') and nb > 1:
                            pre.append(' < '.join('b%d' % i for i in range(nb)))
                        P = dict(impl=impl, ka=ka, kb=kb, na=na, nb=nb)
                        obs.append(dict(id='%s/%s/%s-%s/%d%d' % (pid, impl, ka, kb, na, nb), mod='h_setop', fn='setop_case',
                                        nk=0, args=args, pre=pre, params=P, timeout=t))
        # None (the smallest object key) as the first key of either or both container operands
        conts = ['Set', 'TreeSet', 'Bucket', 'BTree']
        for ka in conts + ['list']:
            for kb in conts + ['list', 'iter']:
                if ka not in conts and kb not in conts:
                    continue
                for na, nb in (((1, 1), (2, 2)) if tier == 'quick' else ((1, 1), (1, 2), (2, 1), (2, 2), (3, 3))):
                    args = [('a%d' % i, 'int') for i in range(na)] + [('b%d' % i, 'int') for i in range(nb)] + [('an', 'bool'), ('bn', 'bool')]
                    pre = ([' < '.join('a%d' % i for i in range(na))] if na > 1 and ka in conts else []) + \
                          ([' < '.join('b%d' % i for i in range(nb))] if nb > 1 and kb in conts else [])
                    obs.append(dict(id='%s/%s/%s-%s/%d%d/none' % (pid, impl, ka, kb, na, nb), mod='h_setop', fn='setop_case',
                                    nk=0, args=args, pre=pre, params=dict(impl=impl, ka=ka, kb=kb, na=na, nb=nb), timeout=t))
        # multi-leaf tree operands (3 keys at leaf size 2) against every kind, also in the quick tier
        if tier == 'quick':
            for ka, kb in (('TreeSet', 'TreeSet'), ('BTree', 'TreeSet'), ('TreeSet', 'BTree'), ('Set', 'BTree'), ('TreeSet', 'list'),
                           ('BTree', 'Bucket'), ('list', 'TreeSet'), ('TreeSet', 'Set')):
                for na, nb in ((3, 2), (3, 3)) if ka != 'list' else ((2, 3),):
                    args = [('a%d' % i, 'int') for i in range(na)] + [('b%d' % i, 'int') for i in range(nb)]
                    pre = []
                    if ka != 'list':
                        pre.append(' < '.join('a%d' % i for i in range(na)))
                    if kb != 'list':
                        pre.append(' < '.join('b%d' % i for i in range(nb)))
                    P = dict(impl=impl, ka=ka, kb=kb, na=na, nb=nb)
                    obs.append(dict(id='%s/%s/%s-%s/%d%d' % (pid, impl, ka, kb, na, nb), mod='h_setop', fn='setop_case',
                                    nk=0, args=args, pre=pre, params=P, timeout=t))
    return {'obligations': obs, 'bounds': {'max_keys_per_operand': mx if tier != 'quick' else '2 (3 for tree operands)',
                                           'operand_kinds': kinds, 'node_sizes': [2, 2]}}


# ---------------------------------------------------------------------------
# C06: state round trip

def state_obligations(pid, tier, seed):
    obs = []
    t = 200 if tier == 'quick' else 600
    sh, bounds = tree_shapes(tier, seed, quick_extra=(6, 2))
    ARGS = [('x', 'int'), ('op', 'int')]
    PRE = ['0 <= op < 6']
    for kind, tag, tpl, hist, L, I in sh:
        m = shapes.n_ranks(tpl)
        emb = shapes.embedded_nonroot(tpl)
        base = '%s/%s/%s%s/%s' % (pid, kind, tag, '' if (L, I) == (2, 2) else '%d%d' % (L, I), sid(tpl))
        P = dict(family='OO', kind=kind, tpl=tpl, L=L, I=I, prov='loaded', embedded_nonroot=emb)
        obs.append(dict(id=base + '/stored', mod='h_state', fn='state_step', nk=m, args=ARGS, pre=PRE,
                        params=dict(P, stored=True), timeout=t))
        if tag == 'core' or tier != 'quick':
            obs.append(dict(id=base + '/fresh', mod='h_state', fn='state_step', nk=m, args=ARGS, pre=PRE,
                            params=dict(P, stored=False), timeout=t))
        if tag == 'core' and hist is not None and (tier != 'quick' or m <= 5):
            N = (max(k for _, k in hist) + 1) if hist else 0
            obs.append(dict(id=base + '/grown', mod='h_state', fn='state_step', nk=N, args=ARGS, pre=PRE,
                            params=dict(P, prov='grown', hist=hist, stored=not emb), timeout=t))
        if tag == 'core' and m <= 4:
            obs.append(dict(id=base + '/none0', mod='h_state', fn='state_step', nk=m, args=ARGS + [('none0', 'bool')], pre=PRE,
                            params=dict(P, stored=True), timeout=t))
    for kind in ('Bucket', 'Set'):
        for n in ((0, 1, 3) if tier == 'quick' else (0, 1, 2, 3, 4, 5)):
            obs.append(dict(id='%s/%s/n%d' % (pid, kind, n), mod='h_state', fn='state_step', nk=n,
                            args=ARGS + [('none0', 'bool')], pre=PRE, params=dict(family='OO', kind=kind, n=n), timeout=t))
    bounds.update(pickle_protocols=[0, 1, 2, 3, 4, 5], per_condition_timeout_s=t)
    return {'obligations': obs, 'bounds': bounds}


# ---------------------------------------------------------------------------
# C18: checkers

def corrupt_obligations(pid, tier, seed):
    from harness import h_corrupt
    obs = []
    t = 200 if tier == 'quick' else 600
    sh, bounds = tree_shapes(tier, seed, quick_extra=(5, 2))
    for impl in ('c', 'py'):
        for kind, tag, tpl, hist, L, I in sh:
            m = shapes.n_ranks(tpl)
            base = '%s/%s/%s/%s%s/%s' % (pid, impl, kind, tag, '' if (L, I) == (2, 2) else '%d%d' % (L, I), sid(tpl))
            P = dict(family='OO', impl=impl, kind=kind, tpl=tpl, L=L, I=I, prov='loaded')
            if tpl[0] != 'T':
                obs.append(dict(id=base + '/pristine', mod='h_corrupt', fn='corrupt_step', nk=m, args=[('p', 'int'), ('q', 'int')],
                                pre=['p == 0', 'q == 0'], params=dict(P, cls='pristine', np=1, nq=1), timeout=t))
                if tpl[0] == 'E':
                    continue
            for cls in h_corrupt.CLASSES:
                np_, nq = h_corrupt.positions(tpl, cls)
                if np_ <= 0:
                    continue
                if tier == 'quick' and tag != 'core' and cls in ('redirect', 'firstbucket', 'kind'):
                    continue
                args = [('p', 'int'), ('q', 'int')] + ([('x', 'int')] if cls in ('key', 'sep', 'emptynode') else [])
                pre = ['0 <= p < %d' % np_, '0 <= q < %d' % nq]
                obs.append(dict(id=base + '/' + cls, mod='h_corrupt', fn='corrupt_step', nk=m, args=args, pre=pre,
                                params=dict(P, cls=cls, np=np_, nq=nq), timeout=t))
    bounds.update(corruption_classes=h_corrupt.CLASSES, single_corruption=True)
    return {'obligations': obs, 'bounds': bounds}


# ---------------------------------------------------------------------------
# C14: raising comparisons

def cmpfail_obligations(pid, tier, seed):
    obs = []
    t = 300 if tier == 'quick' else 600
    sh, bounds = tree_shapes(tier, seed, quick_extra=(3, 1), cap=40)
    F = ['1 <= f <= 40']
    for impl in ('c', 'py'):
        for kind, tag, tpl, hist, L, I in sh:
            m = shapes.n_ranks(tpl)
            is_set = kind == 'TreeSet'
            groups = [('write', 3, ['x']), ('del', 4 if not is_set else 3, ['x']), ('read', 5 if not is_set else 3, ['x']),
                      ('range', 3, ['x', 'y'])]
            groups.append(('inplace', 4, ['x', 'y']) if is_set else ('bulk', 2, ['x', 'y']))
            for g, nops, argn in groups:
                if tier == 'quick' and tag != 'core' and g in ('read', 'inplace', 'bulk'):
                    continue
                if tier == 'quick' and m > 4 and (g in ('range', 'inplace', 'bulk', 'read') or tag != 'core'
                                                  or (kind == 'TreeSet' and g != 'del')):
                    continue
                if tier == 'quick' and g in ('range', 'inplace', 'bulk') and (m > 3 or tag != 'core'):
                    continue
                if tier == 'quick' and m >= 3 and len(argn) == 2:
                    argn = ['x']        # second argument key = first (thorough keeps both symbolic)
                args = [(n, 'int') for n in argn] + [('op', 'int'), ('f', 'int')]
                P = dict(family='OO', impl=impl, kind=kind, tpl=tpl, L=L, I=I, group=g, prov='loaded')
                obs.append(dict(id='%s/%s/%s/%s%s/%s/%s' % (pid, impl, kind, tag, '' if (L, I) == (2, 2) else '%d%d' % (L, I), sid(tpl), g),
                                mod='h_cmpfail', fn='cmpfail_step', nk=m, args=args, pre=['0 <= op < %d' % nops] + F, params=P, timeout=t))
        for kind in ('Bucket', 'Set'):
            is_set = kind == 'Set'
            for n in (0, 1, 3):
                groups = [('write', 3, ['x']), ('del', 4 if not is_set else 3, ['x']), ('read', 5 if not is_set else 3, ['x']),
                          ('range', 3, ['x', 'y'])]
                for g, nops, argn in groups:
                    args = [(a_, 'int') for a_ in argn] + [('op', 'int'), ('f', 'int')]
                    P = dict(family='OO', impl=impl, kind=kind, n=n, group=g)
                    obs.append(dict(id='%s/%s/%s/n%d/%s' % (pid, impl, kind, n, g), mod='h_cmpfail', fn='cmpfail_step', nk=n,
                                    args=args, pre=['0 <= op < %d' % nops] + F, params=P, timeout=t))
    # the same fault raised as ValueError / KeyError / TypeError / IndexError / AttributeError (classes the library catches
    # internally for its own purposes): leaves and the smallest multi-leaf shapes
    multi = sorted({ob['params']['tpl'] for ob in obs if 'tpl' in ob['params'] and len(shapes.leaves(ob['params']['tpl'])) >= 2},
                   key=lambda t_: (shapes.n_ranks(t_), len(repr(t_)), repr(t_)))[:(2 if tier == 'quick' else 6)]
    for ob in list(obs):
        P = ob['params']
        small = (P.get('n') in (1, 3)) or (P.get('tpl') in multi and '/core/' in ob['id'])
        if small and P['group'] in ('write', 'del', 'read', 'range'):
            # one argument key, fault index <= 12 (these containers make fewer comparisons than that)
            obs.append(dict(ob, id=ob['id'] + '/exc', args=[a_ for a_ in ob['args'] if a_[0] != 'y'] + [('ec', 'int')],
                            pre=[p_ for p_ in ob['pre'] if ' f ' not in p_] + ['1 <= f <= 12', '0 <= ec < 3']))
    bounds.update(failing_comparison_index='1..40; indices beyond the comparisons an operation makes are its fault-free path', per_condition_timeout_s=t,
                  exception_classes='CmpError (a plain Exception subclass) everywhere; on leaves of 1 and 3 keys and the two smallest multi-leaf core shapes also subclasses of '
                                    'ValueError, KeyError, TypeError (solver-chosen)')
    return {'obligations': obs, 'bounds': bounds}


# ---------------------------------------------------------------------------
# C04: commit / abort / reload

def commit_obligations(pid, tier, seed):
    obs = []
    t = 300 if tier == 'quick' else 600
    sh, bounds = tree_shapes(tier, seed, quick_extra=(4, 1), cap=60)
    for impl in ('c', 'py'):
        for kind, tag, tpl, hist, L, I in sh:
            m = shapes.n_ranks(tpl)
            is_set = kind == 'TreeSet'
            for g in ('write', 'del'):
                nops = 3 if g == 'write' else (3 if is_set else 4)
                base = '%s/%s/%s/%s%s/%s/%s' % (pid, impl, kind, tag, '' if (L, I) == (2, 2) else '%d%d' % (L, I), sid(tpl), g)
                P = dict(family='OO', impl=impl, kind=kind, tpl=tpl, L=L, I=I, group=g, prov='loaded')
                args = [('x', 'int'), ('op', 'int'), ('ghost', 'bool'), ('cut', 'int')]
                pre = ['0 <= op < %d' % nops, '0 <= cut < 2']
                obs.append(dict(id=base, mod='h_txn', fn='commit_step', nk=m, args=args, pre=pre, params=P, timeout=t))
                # a second transaction on top (commit/abort/none), for shapes that stay small
                if (tier == 'quick' and tag == 'core' and m <= 2) or (tier != 'quick' and m <= 4):
                    for g2 in ('write', 'del'):
                        nops2 = 3 if g2 == 'write' else (3 if is_set else 4)
                        if tier == 'quick' and m >= 2 and ((g, g2) != ('del', 'write') or is_set):
                            continue
                        P2 = dict(P, group2=g2)
                        obs.append(dict(id=base + '+' + g2, mod='h_txn', fn='commit_step', nk=m,
                                        args=args + [('y', 'int'), ('op2', 'int'), ('cut2', 'int')],
                                        pre=pre + ['0 <= op2 < %d' % nops2, '0 <= cut2 < 2'], params=P2, timeout=t))
    obs += leaf_ir_obligations(pid, tier, 'notify')
    obs += tree_ir_obligations(pid, tier, ['notify'], big=False, fams=['II', 'QQ'] if tier == 'quick' else ['II', 'UU', 'LL', 'QQ'], sets=True)
    bounds.update(per_condition_timeout_s=t, transactions='one operation + commit|abort; second operation + commit|abort on core shapes with <= 2 keys (quick; three keys did not exhaust within 300 s in the round-3 environment) / <= 4 keys (thorough)')
    return {'obligations': obs, 'bounds': bounds}


# ---------------------------------------------------------------------------
# C05: eviction

def evict_obligations(pid, tier, seed):
    obs = []
    t = 300 if tier == 'quick' else 600
    sh, bounds = tree_shapes(tier, seed, quick_extra=(3, 1), cap=50)
    for impl in ('c', 'py'):
        for kind, tag, tpl, hist, L, I in sh:
            m = shapes.n_ranks(tpl)
            is_set = kind == 'TreeSet'
            for g in ('read', 'write', 'del', 'range', 'bad'):
                if tier == 'quick' and m > 4 and (tag != 'core' or g in ('read', 'range', 'bad') or is_set):
                    continue
                nops = {'read': 6 if is_set else 8, 'write': 3, 'del': 3 if is_set else 4, 'range': 5, 'bad': 8}[g]
                base = '%s/%s/%s/%s%s/%s/%s' % (pid, impl, kind, tag, '' if (L, I) == (2, 2) else '%d%d' % (L, I), sid(tpl), g)
                P = dict(family='OO', impl=impl, kind=kind, tpl=tpl, L=L, I=I, group=g, prov='loaded')
                args = [('x', 'int'), ('op', 'int'), ('ghost', 'bool'), ('e', 'int')]
                if g == 'range' and (tier != 'quick' or m <= 2):
                    args.insert(1, ('y', 'int'))
                pre = ['0 <= op < %d' % nops, '1 <= e <= 40']
                obs.append(dict(id=base, mod='h_txn', fn='evict_step', nk=m, args=args, pre=pre, params=P, timeout=t))
        for kind in ('Bucket', 'Set'):
            is_set = kind == 'Set'
            for n in (0, 1, 3):
                for g in ('read', 'write', 'del', 'range', 'bad'):
                    nops = {'read': 6 if is_set else 8, 'write': 3, 'del': 3 if is_set else 4, 'range': 5, 'bad': 8}[g]
                    P = dict(family='OO', impl=impl, kind=kind, n=n, group=g)
                    obs.append(dict(id='%s/%s/%s/n%d/%s' % (pid, impl, kind, n, g), mod='h_txn', fn='evict_step', nk=n,
                                    args=[('x', 'int'), ('op', 'int'), ('ghost', 'bool'), ('e', 'int')],
                                    pre=['0 <= op < %d' % nops, '1 <= e <= 40'], params=P, timeout=t))
    for fam in ('II',):
        for kind in ('Bucket', 'Set', 'BTree', 'TreeSet'):
            for n in (0, 1, 5):
                obs.append(dict(id='%s/native/%s/%s/n%d' % (pid, fam, kind, n), mod='h_txn', fn='evict_native', nk=0,
                                args=[('op', 'int'), ('b', 'int'), ('ghost', 'bool')], pre=['0 <= op < 10', '0 <= b < 7'],
                                params=dict(family=fam, kind=kind, n=n), timeout=t))
    from harness import h_txn as _ht
    for fam, impl in (('II', 'c'), ('II', 'py'), ('OO', 'c')) + ((('LL', 'c'), ('OO', 'py')) if tier != 'quick' else ()):
        for op_ in _ht.OPERAND_OPS:
            if fam == 'OO' and op_.startswith(('multiunion', 'weighted')):
                continue
            obs.append(dict(id='%s/operands/%s/%s/%s' % (pid, fam, impl, op_), mod='h_txn', fn='evict_operands', nk=0,
                            args=[('ka', 'int'), ('kb', 'int'), ('ga', 'bool'), ('gb', 'bool')], pre=['0 <= ka < 4', '0 <= kb < 4'],
                            params=dict(family=fam, impl=impl, op=op_), timeout=t))
    obs += leaf_ir_obligations(pid, tier, 'pins')
    obs += tree_ir_obligations(pid, tier, ['pins'], big=False, fams=['UU'] if tier == 'quick' else ['II', 'UU', 'LL', 'QQ'])
    bounds.update(per_condition_timeout_s=t, eviction_point='the e-th key comparison of the operation sweeps the whole cache (e solver-chosen, '
                  '1..40; beyond the last comparison = no sweep inside); before the operation all nodes are ghosts or all active (solver-chosen)')
    return {'obligations': obs, 'bounds': bounds}


# ---------------------------------------------------------------------------
# C08: concurrent transactions

def txn_obligations(pid, tier, seed):
    obs = []
    t = 400 if tier == 'quick' else 600
    sh, bounds = tree_shapes(tier, seed, quick_extra=(4, 2), cap=60, l3=0)
    if tier == 'quick':
        # leaves with spare room (a concurrent insert that does not split) need leaf size 3
        c32, st32 = cat('OO', 'c', 'BTree', 5, 3, 2)
        bounds['shapes_BTree_3_2_N5'] = st32
        pick = [s_ for s_ in sorted(c32, key=lambda s_: (shapes.n_ranks(s_), repr(s_)))
                if s_[0] == 'T' and shapes.n_ranks(s_) <= 5]
        sh += [('BTree', 'l3', s_, c32[s_], 3, 2) for s_ in pick[:10]]
    for impl in ('c', 'py'):
        for kind, tag, tpl, hist, L, I in sh:
            m = shapes.n_ranks(tpl)
            if tpl[0] == 'E':
                continue
            if tier == 'quick' and m > 5:
                continue
            if tier != 'quick' and m > 5 and tag != 'core':
                continue
            P = dict(family='OO', impl=impl, kind=kind, tpl=tpl, L=L, I=I, prov='loaded')
            obs.append(dict(id='%s/%s/%s/%s%s/%s' % (pid, impl, kind, tag, '' if (L, I) == (2, 2) else '%d%d' % (L, I), sid(tpl)),
                            mod='h_txn', fn='txn_pair', nk=m, args=[('x', 'int'), ('y', 'int'), ('op1', 'int'), ('op2', 'int')],
                            pre=['0 <= op1 < 3', '0 <= op2 < 3'], params=P, timeout=t))
    bounds.update(per_condition_timeout_s=t, transactions='one operation each from {insert/replace, delete, clear}, keys and operation '
                  'kinds solver-chosen; first committer = transaction 1 (roles are symmetric: both are symbolic)')
    return {'obligations': obs, 'bounds': bounds}


# ---------------------------------------------------------------------------
# C15: iterate and mutate

def _patterns(maxlen, maxmut):
    import itertools
    out = []
    for n in range(2, maxlen + 1):
        for p in itertools.product('NIDPC', repeat=n):
            muts = sum(1 for c in p if c != 'N')
            if muts == 0 or muts > maxmut or 'N' not in p:
                continue
            if p[-1] != 'N' and n > 2:
                continue                    # a trailing mutation is covered by the shorter pattern + final checks
            out.append(''.join(p))
    return out


def iter_obligations(pid, tier, seed):
    obs = []
    quick = tier == 'quick'
    t = 60 if quick else 600
    sh, bounds = tree_shapes(tier, seed, quick_extra=(0, 0), cap=8)
    QUICK_IT = ['NDN', 'NNDN', 'NDDN', 'NPN', 'NCN', 'NIN', 'DNN', 'NDNDN']
    if quick:
        pats_it = QUICK_IT
        pats_lazy = ['NDN', 'NPN', 'NCN']
        pats_it2 = pats_lazy2 = ['NDN']
        rest_it, rest_lazy = pats_it, pats_lazy
    else:
        # sized by wall time (about 15k obligations): the full pattern sets on the stratified core, a short list on
        # the sampled rest of the catalogues
        pats_it = sorted(set(_patterns(4, 3)) | set(QUICK_IT))
        pats_lazy = [p_ for p_ in _patterns(4, 2) if p_.count('N') <= 2]
        pats_it2 = sorted(set(_patterns(3, 2)) | set(QUICK_IT))         # iteritems / iterkeys share the iterator code
        pats_lazy2 = ['NDN', 'NPN', 'NCN', 'NIN']                       # items / values share the finger code
        rest_it, rest_lazy = pats_it2, ['NDN', 'NPN', 'NCN']
    pats = sorted(set(pats_it) | set(pats_lazy))

    def add(P, base, nkeys, nleaf, src, pat):
        lazy = src in ('keys', 'items', 'values')
        nx = sum(1 for c in pat if c in 'ID')
        nn = sum(1 for c in pat if c == 'N') if lazy else 0
        args = [('x%d' % i, 'int') for i in range(nx)] + [('i%d' % i, 'int') for i in range(nn)]
        dom = (2 * nleaf + 4) if not quick else (nleaf + 2)
        pre = ['0 <= i%d < %d' % (i, dom) for i in range(nn)]
        obs.append(dict(id='%s/%s/%s' % (base, src, pat), mod='h_iter', fn='iter_sched', nk=nkeys, args=args, pre=pre,
                        params=dict(P, src=src, pattern=pat, wide=not quick), timeout=t))

    for impl in ('c', 'py'):
        for kind, tag, tpl, hist, L, I in sh:
            m = shapes.n_ranks(tpl)
            is_set = kind == 'TreeSet'
            if tpl[0] == 'E' or tag not in ('core', 'deep') and quick:
                continue
            if m > (5 if not quick else (3 if is_set else 4)):
                continue
            nleaf = len(shapes.leaf_keys(tpl))
            P = dict(family='OO', impl=impl, kind=kind, tpl=tpl, L=L, I=I, prov='loaded')
            base = '%s/%s/%s/%s%s/%s' % (pid, impl, kind, tag, '' if (L, I) == (2, 2) else '%d%d' % (L, I), sid(tpl))
            core = tag == 'core' or quick
            for pat in (pats_it if core else rest_it):
                add(P, base, m, nleaf, 'iter', pat)
            for pat in (pats_lazy if core else rest_lazy):
                if quick and m > 3:
                    continue
                add(P, base, m, nleaf, 'keys', pat)
            if not is_set:
                for src in ('iteritems', 'items') + (() if quick else ('iterkeys', 'values')):
                    for pat in ((pats_it2 if src.startswith('iter') else pats_lazy2) if core else ['NDN']):
                        if quick and src == 'items' and m > 3:
                            continue
                        add(P, base, m, nleaf, src, pat)
        for kind in ('Bucket', 'Set'):
            is_set = kind == 'Set'
            for n in (1, 3):
                P = dict(family='OO', impl=impl, kind=kind, n=n)
                base = '%s/%s/%s/n%d' % (pid, impl, kind, n)
                for pat in (['NDN', 'NCN', 'NDDN', 'NPN'] if quick else pats_it):
                    add(P, base, n, n, 'iter', pat)
                    if not is_set:
                        add(P, base, n, n, 'iteritems', pat)
    bounds.update(patterns=pats if len(pats) < 40 else '%d patterns of length <= 5 with <= 3 mutations' % len(pats),
                  pattern_alphabet='N = next(it) or seq[i] with a solver-chosen index in [-n-3, n+3]; I insert, D delete (symbolic key); P pop smallest; C clear')
    return {'obligations': obs, 'bounds': bounds}


# ---------------------------------------------------------------------------
# C16: reference accounting (C)

def ref_obligations(pid, tier, seed):
    from harness import h_ref
    obs = []
    quick = tier == 'quick'
    t = 120 if quick else 600
    sh, bounds = tree_shapes(tier, seed, quick_extra=(4, 2), cap=80)
    for kind, tag, tpl, hist, L, I in sh:
        m = shapes.n_ranks(tpl)
        is_set = kind == 'TreeSet'
        for g in ('write', 'del', 'read', 'range', 'setop', 'state') + (('inplace',) if is_set else ()):
            if quick and m > 4 and g in ('setop', 'state', 'inplace', 'read'):
                continue
            two = g in ('write', 'range', 'setop', 'inplace', 'state') and (not quick or m <= 3)
            args = [('x', 'int')] + ([('y', 'int')] if two else []) + [('op', 'int')]
            P = dict(family='OO', kind=kind, tpl=tpl, L=L, I=I, group=g, prov='loaded')
            base = '%s/%s/%s%s/%s/%s' % (pid, kind, tag, '' if (L, I) == (2, 2) else '%d%d' % (L, I), sid(tpl), g)
            obs.append(dict(id=base, mod='h_ref', fn='ref_step', nk=m, args=args, pre=['0 <= op < %d' % h_ref.GROUPS[g]], params=P, timeout=t))
            if tag == 'core' and hist and g in ('write', 'del') and (not quick or m <= 5):
                N = max(k for _, k in hist) + 1
                obs.append(dict(id=base + '/grown', mod='h_ref', fn='ref_step', nk=N, args=args, pre=['0 <= op < %d' % h_ref.GROUPS[g]],
                                params=dict(P, prov='grown', hist=hist), timeout=t))
    # a history that killed the interpreter during the catalogue search
    obs += failed_history_obligations(pid, impls=('c',))
    # memory bounds and reference accounting of the native-key families, decided on the IR (engine E2)
    obs += tree_ir_obligations(pid, tier, ['refs'], big=False, fams=['II', 'QQ'] if quick else ['II', 'UU', 'LL', 'QQ'], sets=True)
    bounds.update(per_condition_timeout_s=t, ir_tree='_BTree_set from IR on the stratified (2,2) catalogue core + stale-separator variants + (3,2) shapes')
    return {'obligations': obs, 'bounds': bounds}


# ---------------------------------------------------------------------------
# C17: allocation failure

def oom_obligations(pid, tier, seed):
    from harness import h_oom
    obs = []
    quick = tier == 'quick'
    t = 150 if quick else 600
    sh, bounds = tree_shapes(tier, seed, quick_extra=(3, 1), cap=50)
    for kind, tag, tpl, hist, L, I in sh:
        m = shapes.n_ranks(tpl)
        is_set = kind == 'TreeSet'
        for g in ('write', 'bulk', 'del', 'setop', 'state'):
            if quick and (m > 4 or tag != 'core') and g in ('bulk', 'setop', 'state', 'del'):
                continue
            if quick and is_set and m > 3 and g != 'write':
                continue
            two = g in ('bulk', 'setop', 'state') and (not quick or m <= 2)
            args = [('x', 'int')] + ([('y', 'int')] if two else []) + [('op', 'int'), ('n', 'int')]
            pre = ['0 <= op < %d' % h_oom.GROUPS[g], '0 <= n <= %d' % h_oom.NMAX]
            for prov in (('loaded', 'grown') if (tag == 'core' and hist and g == 'write' and (not quick or m <= 5)) else ('loaded',)):
                P = dict(family='OO', kind=kind, tpl=tpl, L=L, I=I, group=g, prov=prov)
                nk = m
                if prov == 'grown':
                    P['hist'] = hist
                    nk = max(k for _, k in hist) + 1
                obs.append(dict(id='%s/%s/%s%s/%s/%s%s' % (pid, kind, tag, '' if (L, I) == (2, 2) else '%d%d' % (L, I), sid(tpl), g,
                                                            '' if prov == 'loaded' else '/grown'),
                                mod='h_oom', fn='oom_step', nk=nk, args=args, pre=pre, params=P, timeout=t))
    for kind in ('Bucket', 'Set'):
        for n in (0, 1, 3, 4):
            for g in ('write', 'bulk', 'setop', 'state'):
                args = [('x', 'int')] + ([('y', 'int')] if (not quick or n <= 1) else []) + [('op', 'int'), ('n', 'int')]
                pre = ['0 <= op < %d' % h_oom.GROUPS[g], '0 <= n <= %d' % h_oom.NMAX]
                obs.append(dict(id='%s/%s/n%d/%s' % (pid, kind, n, g), mod='h_oom', fn='oom_step', nk=n, args=args, pre=pre,
                                params=dict(family='OO', kind=kind, n=n, group=g), timeout=t))
    # native-key families: the n-th allocation of _BTree_set refused, decided on the IR for fully symbolic words (engine E2)
    obs += tree_ir_obligations(pid, tier, None, fams=['II', 'QQ'] if quick else ['II', 'UU', 'LL', 'QQ'], sets=True, oom=True)
    from harness import h_oom as _h
    obs.append(dict(id='%s/fs/Bucket/fromBytes' % pid, mod='h_oom', fn='oom_fs', nk=0, args=[('s0', 'int'), ('s1', 'int'), ('n', 'int')],
                    pre=['0 <= s0 < %d' % len(_h.FS_SIZES), '0 <= s1 < %d' % len(_h.FS_SIZES), '0 <= n <= %d' % _h.NMAX],
                    params=dict(family='fs'), timeout=t))
    bounds.update(per_condition_timeout_s=t, failing_allocation='index solver-chosen among the allocations the call makes on the path (counted by a '
                  'dry run on a twin), capped at %d' % h_oom.NMAX)
    return {'obligations': obs, 'bounds': bounds}


# ---------------------------------------------------------------------------
# C09: C vs Python

DIFF_FAMILIES_QUICK = ['OO', 'II', 'LL', 'IF', 'fs', 'UU']
DIFF_FAMILIES_ALL = ['OO', 'II', 'LL', 'IF', 'OI', 'fs', 'UU', 'QQ', 'IO', 'LO', 'LF', 'OL', 'IU', 'UI', 'UO', 'UF', 'LQ', 'QL', 'QO', 'QF', 'OU', 'OQ']


def diff_obligations(pid, tier, seed):
    from harness import h_diff
    obs = []
    quick = tier == 'quick'
    t = 200 if quick else 600
    sh, bounds = tree_shapes(tier, seed, quick_extra=(5, 2), cap=100)
    for kind, tag, tpl, hist, L, I in sh:
        m = shapes.n_ranks(tpl)
        is_set = kind == 'TreeSet'
        groups = SET_GROUPS if is_set else MAP_GROUPS
        for g, nops, argn in groups:
            if g == 'read' and (quick and m > 3):
                continue
            if g in ('bulk', 'inplace') and quick and m > 3:
                argn = ['x']
            args = [(n, 'int') for n in argn] + [('op', 'int')]
            for prov in (('loaded', 'grown') if (tag == 'core' and hist and g != 'read' and (not quick or m <= 5)) else ('loaded',)):
                P = dict(family='OO', kind=kind, tpl=tpl, L=L, I=I, group=g, prov=prov)
                nk = m
                if prov == 'grown':
                    P['hist'] = hist
                    nk = max(k for _, k in hist) + 1
                obs.append(dict(id='%s/step/%s/%s%s/%s/%s%s' % (pid, kind, tag, '' if (L, I) == (2, 2) else '%d%d' % (L, I), sid(tpl), g,
                                                                 '' if prov == 'loaded' else '/grown'),
                                mod='h_diff', fn='diff_step', nk=nk, args=args, pre=['0 <= op < %d' % nops], params=P, timeout=t))
    npal = len(h_diff.palette('I', not quick))
    for fam in (DIFF_FAMILIES_QUICK if quick else DIFF_FAMILIES_ALL):
        for kind in ('BTree', 'Bucket', 'TreeSet', 'Set'):
            nops = len(h_diff.SET_OPS if kind in ('Set', 'TreeSet') else h_diff.OPS)
            for size in (0, 1, 2):
                obs.append(dict(id='%s/types/%s/%s/size%d' % (pid, fam, kind, size), mod='h_diff', fn='diff_types', nk=0,
                                args=[('op', 'int'), ('p', 'int')],
                                pre=['0 <= op < %d' % nops, '0 <= p < %d' % npal],
                                params=dict(family=fam, kind=kind, size=size, wide=not quick), timeout=t))
    bounds.update(type_palette=npal, families=DIFF_FAMILIES_QUICK if quick else DIFF_FAMILIES_ALL)
    return {'obligations': obs, 'bounds': bounds}


# ---------------------------------------------------------------------------
# C13: representable data

REPR_QUICK = ['II', 'UU', 'LL', 'QQ', 'IF', 'fs', 'OO', 'OI']
REPR_ALL = DIFF_FAMILIES_ALL


def repr_obligations(pid, tier, seed):
    from harness import h_repr
    obs = []
    quick = tier == 'quick'
    t = 200 if quick else 600
    for fam in ('II', 'UU', 'LL', 'QQ') + (() if quick else ('IU', 'UI', 'LQ', 'QL')):
        for kind in ('BTree', 'Bucket', 'TreeSet', 'Set'):
            ne = len(h_repr.SET_ENTRIES if kind in ('Set', 'TreeSet') else h_repr.ENTRIES)
            obs.append(dict(id='%s/py_int/%s/%s' % (pid, fam, kind), mod='h_repr', fn='py_int', nk=0,
                            args=[('n', 'int'), ('e', 'int'), ('pre', 'int')], pre=['0 <= e < %d' % ne, '0 <= pre < 2'],
                            params=dict(family=fam, kind=kind), timeout=t))
    npal = len(h_repr.INTS + h_repr.FLOATS + h_repr.OTHERS) + 1
    for fam in (REPR_QUICK if quick else REPR_ALL):
        for impl in ('c', 'py'):
            for kind in ('BTree', 'Bucket', 'TreeSet', 'Set'):
                ne = len(h_repr.NS_ENTRIES if kind in ('Set', 'TreeSet') else h_repr.N_ENTRIES)
                obs.append(dict(id='%s/native/%s/%s/%s' % (pid, fam, impl, kind), mod='h_repr', fn='native', nk=0,
                                args=[('e', 'int'), ('p', 'int')], pre=['0 <= e < %d' % ne, '0 <= p < %d' % npal],
                                params=dict(family=fam, kind=kind, impl=impl), timeout=t))
                # the same writes into an empty container (and, thorough, one with three entries)
                for n0 in ((0,) if kind in ('BTree', 'TreeSet') else ()) if quick else (0, 3):
                    obs.append(dict(id='%s/native/%s/%s/%s/n%d' % (pid, fam, impl, kind, n0), mod='h_repr', fn='native', nk=0,
                                    args=[('e', 'int'), ('p', 'int')], pre=['0 <= e < %d' % ne, '0 <= p < %d' % npal],
                                    params=dict(family=fam, kind=kind, impl=impl, n0=n0), timeout=t))
    # engine E2: the conversion macros of the real family sources from clang IR, argument = unbounded integer
    for fam in ('II', 'UU', 'LL', 'QQ') + (() if quick else ('IU', 'UI', 'LQ', 'QL', 'IO', 'OI', 'OL', 'OU', 'OQ', 'UO', 'LO', 'QO')):
        for which in ('key', 'value'):
            if (which == 'key' and fam[0] not in 'IULQ') or (which == 'value' and fam[1] not in 'IULQ'):
                continue
            obs.append(dict(id='%s/ir/%s/%s' % (pid, fam, which), engine='llsym', mod='h_kernel', fn='conv_native', nk=0,
                            args=[('n', 'int'), ('is_int', 'bool')], params=dict(family=fam, kernel='conv', which=which), timeout=t))
    obs += leaf_ir_obligations(pid, tier, 'replace')
    return {'obligations': obs, 'bounds': {'python_integers': 'unbounded (z3 Int)', 'palette': npal,
                                           'ir_conversions': 'COPY_KEY_FROM_ARG / COPY_VALUE_FROM_ARG as compiled (clang -O1 IR of the family source) with the '
                                           'argument\'s integer value an unbounded z3 Int and its int-ness a z3 Bool',
                                           'families': REPR_QUICK if quick else REPR_ALL}}


# ---------------------------------------------------------------------------
# C12: weighted union / intersection

def weighted_obligations(pid, tier, seed):
    from harness import h_weighted
    obs = []
    quick = tier == 'quick'
    t = 200 if quick else 600
    kinds = ['Set', 'TreeSet', 'Bucket', 'BTree', 'None']
    mx = 2 if quick else 3
    for impl in ('c', 'py'):
        for ka in kinds:
            for kb in kinds:
                for na in range(0, mx + 1):
                    for nb in range(0, mx + 1):
                        if (ka == 'None' and na) or (kb == 'None' and nb):
                            continue
                        if quick and (na + nb > 3 or (na + nb == 3 and (impl == 'c' or ka == kb))):
                            continue
                        if quick and impl == 'py' and na + nb > 2 and ka in ('TreeSet', 'BTree') and kb in ('TreeSet', 'BTree'):
                            continue
                        args = [('a%d' % i, 'int') for i in range(na)] + [('b%d' % i, 'int') for i in range(nb)]
                        pre = []
                        if na > 1:
                            pre.append(' < '.join('a%d' % i for i in range(na)))
                        if nb > 1:
                            pre.append(' < '.join('b%d' % i for i in range(nb)))
                        args += [('fn', 'int'), ('dflt', 'bool'), ('w1', 'int'), ('w2', 'int')]
                        pre += ['0 <= fn < 2']
                        nva = na if ka in ('Bucket', 'BTree') else 0
                        nvb = nb if kb in ('Bucket', 'BTree') else 0
                        args += [('va%d' % i, 'int') for i in range(na)] + [('vb%d' % i, 'int') for i in range(nb)]
                        if impl == 'c':
                            pre += ['0 <= w1 < %d' % len(h_weighted.WPAL), '0 <= w2 < 2']
                            pre += ['0 <= va%d < %d' % (i, len(h_weighted.VPAL) if i < nva else 1) for i in range(na)]
                            pre += ['0 <= vb%d < %d' % (i, len(h_weighted.VPAL) if i < nvb else 1) for i in range(nb)]
                        else:
                            pre += ['-100 <= w1 <= 100', '-100 <= w2 <= 100']
                            pre += ['-100 <= va%d <= 100' % i if i < nva else 'va%d == 1' % i for i in range(na)]
                            pre += ['-100 <= vb%d <= 100' % i if i < nvb else 'vb%d == 1' % i for i in range(nb)]
                        P = dict(impl=impl, family='OL', ka=ka, kb=kb, na=na, nb=nb)
                        obs.append(dict(id='%s/%s/%s-%s/%d%d' % (pid, impl, ka, kb, na, nb), mod='h_weighted', fn='weighted_case',
                                        nk=0, args=args, pre=pre, params=P, timeout=t))
        # one object as both operands
        for ka in ('Set', 'TreeSet', 'Bucket', 'BTree'):
            for na in range(0, mx + 1):
                args = [('a%d' % i, 'int') for i in range(na)] + [('fn', 'int'), ('dflt', 'bool'), ('w1', 'int'), ('w2', 'int')]
                args += [('va%d' % i, 'int') for i in range(na)]
                pre = ([' < '.join('a%d' % i for i in range(na))] if na > 1 else []) + ['0 <= fn < 2']
                nva = na if ka in ('Bucket', 'BTree') else 0
                if impl == 'c':
                    pre += ['0 <= w1 < %d' % len(h_weighted.WPAL), '0 <= w2 < 2']
                    pre += ['0 <= va%d < %d' % (i, len(h_weighted.VPAL) if i < nva else 1) for i in range(na)]
                else:
                    pre += ['-100 <= w1 <= 100', '-100 <= w2 <= 100']
                    pre += ['-100 <= va%d <= 100' % i if i < nva else 'va%d == 1' % i for i in range(na)]
                obs.append(dict(id='%s/%s/%s-same/%d' % (pid, impl, ka, na), mod='h_weighted', fn='weighted_case', nk=0, args=args, pre=pre,
                                params=dict(impl=impl, family='OL', ka=ka, kb=ka, na=na, nb=0, same=True), timeout=t))
        for ka in ('Set', 'TreeSet', 'Bucket', 'BTree'):
            for kb in ('Set', 'TreeSet', 'Bucket', 'BTree'):
                obs.append(dict(id='%s/%s/float/%s-%s' % (pid, impl, ka, kb), mod='h_weighted', fn='weighted_float', nk=0,
                                args=[('fn', 'int'), ('w1', 'int'), ('w2', 'int'), ('lay', 'int'), ('v0', 'int'), ('v1', 'int')],
                                pre=['0 <= fn < 2', '0 <= w1 < 3', '0 <= w2 < 3', '0 <= lay < 4', '0 <= v0 < 2', '0 <= v1 < 2'],
                                params=dict(impl=impl, family='IF', ka=ka, kb=kb), timeout=t))
    return {'obligations': obs, 'bounds': {'max_keys_per_operand': mx, 'python_values_and_weights': 'symbolic integers in [-100, 100]',
                                           'c_weight_palette': h_weighted.WPAL, 'c_value_palette': h_weighted.VPAL}}


# ---------------------------------------------------------------------------
# C11: multiunion

MULTI_QUICK = ['II', 'UU', 'LL', 'QQ']
MULTI_ALL = ['II', 'UU', 'LL', 'QQ', 'IO', 'IF', 'IU', 'UO', 'UF', 'UI', 'LO', 'LF', 'LQ', 'QO', 'QF', 'QL']


def multi_obligations(pid, tier, seed):
    from harness import h_multi, h_repr
    obs = []
    quick = tier == 'quick'
    t = 200 if quick else 600
    for fam in MULTI_QUICK:
        lo, hi = h_repr.RANGES[h_multi.FMT[fam[0]]]
        for nops in (1, 2):
            for n in ((1, 2, 3) if quick else (1, 2, 3, 4)):
                if quick and nops == 2 and n > 2:
                    continue
                args = [('x%d' % i, 'int') for i in range(n)] + [('k%d' % i, 'int') for i in range(nops)] + [('cut', 'int')]
                pre = ['%d <= x%d <= %d' % (lo, i, hi) for i in range(n)] + ['0 <= k%d < 6' % i for i in range(nops)] + ['0 <= cut <= %d' % n]
                obs.append(dict(id='%s/py/%s/ops%d/n%d' % (pid, fam, nops, n), mod='h_multi', fn='py_multi', nk=0, args=args, pre=pre,
                                params=dict(family=fam, n=n, nops=nops), timeout=t))
    for fam in (MULTI_QUICK if quick else MULTI_ALL):
        for impl in ('c', 'py'):
            obs.append(dict(id='%s/%s/%s/sizes' % (pid, impl, fam), mod='h_multi', fn='c_multi', nk=0,
                            args=[('size', 'int'), ('layout', 'int'), ('spread', 'int'), ('nb', 'int'), ('dup', 'bool')],
                            pre=['0 <= size < 7' if impl == 'c' else '0 <= size < 4', '0 <= layout < 5', '0 <= spread < 4', '0 <= nb < 4'],
                            params=dict(family=fam, impl=impl), timeout=t * 2))
    # engine E2: the real sorters.c kernels from clang IR on fully symbolic machine words
    for fam in MULTI_QUICK:
        plan = [('uniq', (3, 5)), ('uniq_copy', (2, 4)), ('quicksort', (3, 4)), ('sort_int_nodups', (3,))] if quick else \
               [('uniq', (1, 2, 3, 4, 5, 6, 7)), ('uniq_copy', (1, 2, 3, 4, 5, 6)), ('quicksort', (1, 2, 3, 4, 5)), ('sort_int_nodups', (1, 2, 3, 4))]
        for kernel, ns in plan:
            for n in ns:
                obs.append(dict(id='%s/ir/%s/%s/n%d' % (pid, fam, kernel, n), engine='llsym', mod='h_kernel', fn='k_native', nk=0,
                                args=[('x%d' % i, 'int') for i in range(n)], params=dict(family=fam, kernel=kernel, n=n), timeout=t))
    return {'obligations': obs, 'bounds': {'python_symbolic_keys': '<= 3 (quick) / 4 integers anywhere in the family range',
                                           'ir_kernels': 'uniq (in place and copying), quicksort (insertion-sort branch: n <= 25), sort_int_nodups '
                                           '(quicksort branch: n <= 800) of sorters.c on n fully symbolic 32/64-bit words, n as listed in the obligation ids',
                                           'c_sizes': [0, 3, 40, 799, 801, 900, 2000], 'families': MULTI_QUICK if quick else MULTI_ALL}}


# ---------------------------------------------------------------------------
# engine E2 leaf kernels (native-key families): obligations shared by C01, C02, C05

def leaf_ir_obligations(pid, tier, what):
    obs = []
    quick = tier == 'quick'
    t = 120 if quick else 600
    fams = ['II', 'UU', 'LL', 'QQ'] if quick else ['II', 'UU', 'LL', 'QQ', 'IU', 'UI', 'LQ', 'QL']
    ns = (0, 1, 2, 3) if quick else (0, 1, 2, 3, 4, 5, 6)
    for fam in fams:
        for n in ns:
            names = [('n', 'int')] + [('k%d' % i, 'int') for i in range(n)]
            if what in ('get', 'pins'):
                for hk in (0, 1):
                    for arg in (('word',) if what == 'get' else ('big', 'small')):
                        if what == 'pins' and n not in (0, 2):
                            continue
                        obs.append(dict(id='%s/ir/%s/get/n%d/hk%d/%s' % (pid, fam, n, hk, arg), engine='llsym', mod='h_kernel', fn='leaf_native', nk=0,
                                        args=names, params=dict(family=fam, kernel='leaf_get', n=n, has_key=hk, arg=arg), timeout=t))
            if what in ('range', 'pins'):
                for low in (0, 1):
                    for ex in (0, 1):
                        for arg in (('word',) if what == 'range' else ('big',)):
                            if what == 'pins' and (n not in (0, 2) or ex):
                                continue
                            obs.append(dict(id='%s/ir/%s/range/n%d/low%d/ex%d/%s' % (pid, fam, n, low, ex, arg), engine='llsym', mod='h_kernel',
                                            fn='leaf_native', nk=0, args=names,
                                            params=dict(family=fam, kernel='leaf_range', n=n, low=low, exclude=ex, arg=arg), timeout=t))
    if what in ('set', 'notify', 'replace'):
        for fam in fams:
            for n in ((0, 1, 2, 3) if quick else (0, 1, 2, 3, 4, 5)):
                names = [('n', 'int'), ('v', 'int')] + [('k%d' % i, 'int') for i in range(n)] + [('w%d' % i, 'int') for i in range(n)]
                for op in (('set', 'insert', 'delete') if what != 'replace' else ('set',)):
                    for spare in (0, 1):
                        if what != 'set' and (spare or n == 0):
                            continue
                        obs.append(dict(id='%s/ir/%s/%s/n%d/spare%d' % (pid, fam, op, n, spare), engine='llsym', mod='h_kernel', fn='leaf_set_native',
                                        nk=0, args=names, params=dict(family=fam, kernel='leaf_set', n=n, op=op, spare=spare), timeout=t))
    return obs


def tree_ir_obligations(pid, tier, focus, fams=None, sets=False, oom=False, big=True):
    """engine E2 at tree level: _BTree_set of the native-key families from IR, one call from every stratified catalogue
    shape (plus stale-separator variants, leaves with spare capacity, never-stored trees)"""
    obs = []
    quick = tier == 'quick'
    fams = fams or (['II', 'UU', 'LL', 'QQ'] if quick else ['II', 'UU', 'LL', 'QQ', 'IU', 'LQ'])
    c5, _ = cat('OO', 'c', 'BTree', 5, 2, 2)
    c6, _ = cat('OO', 'c', 'BTree', 6, 2, 2)
    base = list(shapes.stratify(c5, 2, 2))
    lean = quick and not big        # the four properties that share the kernel with C01 take a leaner quick plan
    if lean:
        base += [s_ for s_ in shapes.stratify(c6, 2, 2, want={'depth4', 'two_nonfirst_steps_first_leaf_1', 'nonfirst_bottom_first_leaf_1'})
                 if s_ not in base]
    else:
        base += [s_ for s_ in shapes.stratify_large(c6, 2, 2) if s_ not in base]
    # the first family runs the COMPLETE N=5 catalogue plus every four-level shape of the N=6 catalogue with <= 4 keys
    # (thorough: the complete N=6 catalogue); the others the stratified core
    if quick:
        big = sorted(c5, key=repr) + sorted((s_ for s_ in c6 if shapes.depth(s_) == 4 and shapes.n_ranks(s_) <= 4 and s_ not in c5), key=repr)
    else:
        big = sorted(c6, key=repr)
    stale = [v for v in (shapes.stale_variant(s_) for s_ in base) if v is not None and shapes.n_ranks(v) <= (7 if quick else 11)]
    c32, _ = cat('OO', 'c', 'BTree', 5, 3, 2)
    l3 = [s_ for s_ in shapes.stratify(c32, 3, 2) if s_[0] == 'T'][:(4 if quick else 12)]
    plan = [(tp, 2, 2, 0, True, 'big') for tp in big if tp not in base]
    plan += [(tp, 2, 2, 0, True, '') for tp in base] + [(tp, 2, 2, 0, True, 'v') for tp in stale] + [(tp, 3, 2, 0, True, 'v') for tp in l3]
    # grown trees have spare capacity in their vectors; never-stored trees have no oids
    plan += [(tp, 2, 2, 1, True, 'v') for tp in base if shapes.n_ranks(tp) <= (3 if quick else 5)]
    plan += [(tp, 2, 2, 0, False, 'v') for tp in base if shapes.n_ranks(tp) <= (3 if quick else 5)]
    seen = set()
    for fam in fams:
        for tp, L, I, spare, stored, cls in plan:
            # the structural variants (slack, never stored, node size 3, keys-only trees) do not depend on the key type:
            # first (32-bit) and last (64-bit) family only
            if cls == 'v' and fam not in (fams[0], fams[-1]):
                continue
            if lean and fam != fams[0] and (cls == 'v' or shapes.n_ranks(tp) > 3):
                continue
            if cls == 'big' and (fam != fams[0] or oom or (not big and tier == 'quick')):
                continue
            if oom and (not stored or spare):
                continue            # with spare capacity in every vector a call may not allocate at all
            for is_set in ((False, True) if sets else (False,)):
                if is_set and (cls != '' or fam not in (fams[0], fams[-1])):
                    continue
                mm = shapes.n_ranks(tp)
                for op in ('set', 'insert', 'delete'):
                    if is_set and op == 'insert':
                        continue
                    if cls == 'big' and op == 'insert':
                        continue
                    if oom and op == 'delete':
                        continue            # a delete never allocates
                    oid = '%s/ir/%s/tree_set/%s%s/%s/%d%d%s%s%s' % (pid, fam, 'set-' if is_set else '', sid(tp), op, L, I,
                                                                    '/spare' if spare else '', '' if stored else '/unstored', '/oom' if oom else '')
                    if oid in seen:
                        continue
                    seen.add(oid)
                    obs.append(dict(id=oid, engine='llsym', mod='h_kernel', fn='tree_set_native', nk=0,
                                    args=[('n', 'int'), ('v', 'int')] + [('k%d' % i, 'int') for i in range(mm)] + [('w%d' % i, 'int') for i in range(mm)] +
                                    ([('fa', 'int')] if oom else []),
                                    params=dict(family=fam, kernel='tree_set', tpl=tp, op=op, L=L, I=I, spare=spare, stored=stored,
                                                is_set=is_set, focus=focus, oom=oom),
                                    timeout=300 if quick else 900))
    return obs


IR_TREE_TEXT = (' Engine E2 at tree level: _BTree_set (assign / insert-if-absent / delete) of the native-key families, interpreted from the '
                'clang IR of the real family source together with everything it calls (BTree_grow, bucket_split, BTree_split, BTree_split_root, '
                '_bucket_set, Bucket_grow, Bucket_deleteNextBucket, BTree_deleteNextBucket, BTree_lastBucket, _BTree_clear), on fake multi-level '
                'trees built from the stratified catalogue templates (and stale-separator variants, node size (3,2), vectors with spare '
                'capacity, never-stored trees) whose keys, values and argument are fully symbolic machine words: on every feasible path z3 '
                'shows ')
IR_TREE_FUNCS = ('engine E2 at tree level (LLVM IR of the native-key family sources): _BTree_set, BTree_grow, bucket_split, BTree_split, '
                 'BTree_split_root, _bucket_set, Bucket_grow, Bucket_deleteNextBucket, BTree_deleteNextBucket, BTree_lastBucket, _BTree_clear, '
                 '_max_internal_size, _max_leaf_size, BTree_Malloc, BTree_Realloc, Py_XINCREF, Py_TYPE, PyType_HasFeature')
IR_TREE_WHAT = {
    'contents': 'the leaf chain holds exactly the sorted-map result, the return code and the error indicator are as documented',
    'sound': 'the resulting tree is sound (separator ranges, strictly ascending chain == leaves by descent, firstbucket pointers, no empty '
             'node, node sizes within max_leaf_size / max_internal_size, vectors are live blocks of the recorded size)',
    'notify': 'every node whose serialised state differs from its pre-state was announced through the persistence changed() hook (the root '
              'for an embedded oid-less leaf)',
    'pins': 'every node is unpinned at return',
    'refs': 'every node\'s reference count equals the number of references the structure holds to it, nodes that left the tree are '
            'released exactly once, no access touches freed or foreign memory, no assert is reachable',
}


IR_LEAF_TEXT = (' Engine E2 (clang LLVM IR of the real family source + z3 bit-vectors): the compiled leaf kernels of the native-key families '
                '(int, unsigned, long long, unsigned long long keys) run on a leaf of n symbolic machine-word keys in strictly ascending family '
                'order, symbolic values and a symbolic argument word: ')


COMMON_ASSUME = [
    'key objects are observed by the containers only through rich comparison, identity and None-ness '
    '(true for the object-key templates; native-key families are covered by their own obligations where stated)',
    'pre-states are the complete catalogue of shapes reachable over a universe of N distinct keys at the stated node sizes; '
    'larger trees are outside the bound',
]

PROPS = {
    'C01': dict(
        families=['OO', 'II', 'UU', 'LL', 'QQ'],
        families_thorough=['OO', 'II', 'UU', 'LL', 'QQ', 'IU', 'UI', 'LQ', 'QL'],
        gen=lambda tier, seed: step_obligations('C01', tier, seed, 'model'),
        explanation='Each obligation symbolically executes one public call (selector inside an operation group is a solver '
                    'variable) of the real compiled or pure-Python container from a reachable pre-state whose keys are '
                    'strictly ordered symbolic integers, with symbolic argument keys (optionally None), and asserts return '
                    'value, exception class and full ordered contents against a list-based sorted-map model. CrossHair '
                    'exhausts the path tree (every feasible outcome of every key comparison the real code makes); only '
                    'CONFIRMED counts as discharged. Plus k symbolic inserts/deletes from the empty container.' + IR_LEAF_TEXT +
                    '_bucket_get returns the value stored under the equal key / reports KeyError (has_key: 1 / 0), for every feasible path of '
                    'the binary search, leaves the leaf untouched and unpinned, never reads outside the key/value vectors; _bucket_set '
                    '(assign, insert-if-absent, delete; full leaf -> Bucket_grow/realloc, last key -> vectors freed) leaves exactly the '
                    'sorted-map result in the key/value vectors (strictly ascending, nothing lost or invented), returns 1 iff the number of '
                    'entries changed, KeyError for deleting an absent key, sets the change flag and notifies persistence iff it modified the leaf; '
                    '_BTree_get on fake multi-level trees built from catalogue templates (interior-node binary search BTREE_SEARCH over native '
                    'separators, incl. separators that are not stored keys, descent, leaf search): a key is found iff a leaf stores it, with its '
                    'value; every node is unpinned at return.' + IR_TREE_TEXT + IR_TREE_WHAT['contents'] + '.',
        functions=[IR_TREE_FUNCS, 'BTrees._base.Tree/TreeSet/Bucket/Set public methods', '_OOBTree.so: _BTree_set, _BTree_get, BTree_grow, '
                   'BTree_split, BTree_split_root, BTree_deleteNextBucket, _bucket_set, _bucket_get, bucket_split, '
                   'Bucket_grow, set_* / TreeSet_* in-place operators, BTree_clear, update',
                   'engine E2 (LLVM IR of _IIBTree.c/_UUBTree.c/_LLBTree.c/_QQBTree.c): _bucket_get, _bucket_set, Bucket_grow, BTree_Realloc, '
                   'BTree_Malloc, _BTree_get, Py_TYPE, PyType_HasFeature, longlong_convert, ulonglong_convert, longlong_handle_overflow'],
        assumptions=COMMON_ASSUME,
    ),
    'C03': dict(
        families=['OO', 'II', 'OI', 'IF', 'LL'],
        families_thorough=['OO', 'II', 'OI', 'IF', 'LL', 'UU', 'QQ'],
        gen=lambda tier, seed: sound_obligations('C03', tier, seed),
        explanation='Induction step for structural soundness: from every catalogue shape (sound by the independent walker) one '
                    'symbolic mutating public call is executed on the real code; afterwards _check(), BTrees.check.check() '
                    'and an independent walker (leaf chain == leaves by descent, strict ascending order, separator ranges, '
                    'uniform child kinds, no empty node, node size limits) must all accept, on every path.' + IR_TREE_TEXT + IR_TREE_WHAT['sound'] + '.',
        functions=[IR_TREE_FUNCS, '_OOBTree.so: _BTree_set, BTree_grow, BTree_split, BTree_split_root, _BTree_clear, bucket_split, '
                   'BTree_deleteNextBucket, BTree_check_inner', 'BTrees._base._Tree._set/_del/_grow/_split/_split_root/_check',
                   'BTrees.check.Checker',
                   '_IIBTree/_OIBTree/_IFBTree/_LLBTree.so: _BTree_set / _bucket_set / update / constructor / setdefault with '
                   'accepted and rejected keys and values (conversion failure after the tree made room for the entry)'],
        assumptions=COMMON_ASSUME,
    ),
    'C02': dict(
        families=['OO', 'II', 'UU', 'LL', 'QQ'],
        families_thorough=['OO', 'II', 'UU', 'LL', 'QQ', 'IU', 'UI', 'LQ', 'QL'],
        gen=lambda tier, seed: range_obligations('C02', tier, seed),
        explanation='Each obligation symbolically executes the range queries keys/values/items/iterkeys/itervalues/iteritems '
                    '(keyword and positional form) with solver-chosen bounds (omitted, None, or a symbolic key: present, in a '
                    'gap, below or above everything), solver-chosen exclusion flags, minKey/maxKey with a symbolic bound, and '
                    'the lazy sequences (len, every index in [-n-2, n+1] in every order of two consecutive accesses, every '
                    'step-1 slice) on the real compiled and pure-Python containers from a reachable pre-state with strictly '
                    'ordered symbolic keys (thinned trees, single-child roots, stale separators, one-key first/last leaves '
                    'are in the stratified core), and asserts equality with the model slice. CrossHair exhausts the path tree.' + IR_LEAF_TEXT +
                    'Bucket_findRangeEnd returns the index of the first key >= / > the bound (low end) or the last key <= / < it (high end), or '
                    '0 when no key qualifies, in the family\'s signed or unsigned order.' + ' Engine E2 at tree level: BTree_findRangeEnd of the native-key families from IR on fake multi-level trees (catalogue templates incl. stale-separator variants) with fully symbolic words: the reported (leaf, offset) is the smallest key >= / > the bound (low end) resp. the largest key <= / < it (high end) in chain order, 0 iff no key qualifies; nothing is modified, every node unpinned, exactly the reported leaf gets a reference.',
        functions=['engine E2 at tree level (LLVM IR of the native-key family sources): BTree_findRangeEnd, Bucket_findRangeEnd, BTree_lastBucket', '_OOBTree.so: BTree_rangeSearch, BTree_findRangeEnd, BTree_maxminKey, Bucket_findRangeEnd, '
                   'Bucket_rangeSearch, Bucket_maxminKey, BTreeItems_seek/_item/_slice/_length, BTreeIter_next, buildBTreeIter, '
                   'PreviousBucket', 'BTrees._base: _Tree.keys/values/items/iter*/minKey/maxKey/_findbucket, _TreeItems, '
                   '_BucketBase._range/minKey/maxKey, Bucket.keys/values/items/iter*'],
        assumptions=COMMON_ASSUME,
    ),
    'C19': dict(
        families=[],
        gen=lambda tier, seed: length_obligations('C19', tier, seed),
        explanation='BTrees.Length is executed symbolically with unbounded z3 integers: _p_resolveConflict(old, old+a, old+b) '
                    '== old+a+b in both argument orders, on fresh and live objects, and folded over a third concurrent update, '
                    'for ALL integers (linear integer arithmetic, no width bound); set/change/__call__/__getstate__/__setstate__ '
                    'against an integer cell for every sequence of k calls whose kinds are solver-chosen and whose arguments are '
                    'unbounded symbolic integers; at the end of every path the realised value is pickled (all protocols), '
                    'copied and loaded into a live object.',
        functions=['BTrees.Length.Length.__init__/__getstate__/__setstate__/set/change/__call__/_p_resolveConflict'],
        assumptions=['pickle and copy are exercised on one solver-chosen witness per path (pickle realises symbols)'],
    ),
    'C07': dict(
        families=['OO'],
        gen=lambda tier, seed: merge_obligations('C07', tier, seed),
        explanation='_p_resolveConflict of the real compiled and pure-Python Bucket/Set (and of BTree/TreeSet on the embedded '
                    'one-leaf form) is executed on three states whose keys and values are symbolic (each key list strictly '
                    'increasing; every order relation between keys of different states and every value equality is a solver '
                    'decision), with solver-chosen successor links and None-for-empty states, and compared with a declarative '
                    'three-way merge (refuse iff a side is empty, the change sets intersect, a side removed the then-smallest '
                    'key, the successor links differ, or the result is empty). C and Python must take the same decision with '
                    'the same reason code. Malformed and multi-leaf states: solver-chosen selectors into a palette.' + ' Round 3: /pv obligations use values that are only partially ordered (equal or incomparable).',
        functions=['_OOBTree.so: bucket_merge, merge_output, merge_error, _bucket__p_resolveConflict, bucket__p_resolveConflict, '
                   'BTree__p_resolveConflict, get_bucket_state, initSetIteration/nextBucket/nextSet', 'BTrees._base: '
                   'Bucket._p_resolveConflict, Set._p_resolveConflict, _Tree._p_resolveConflict, _get_simple_btree_bucket_state, _SetIteration'],
        assumptions=['persistent references to the successor leaf are modelled by plain objects compared by identity, one instance '
                     'per reference per resolution (as ZODB\'s conflict resolution supplies them)'],
    ),
    'C10': dict(
        families=['OO'],
        gen=lambda tier, seed: setop_obligations('C10', tier, seed),
        explanation='union/intersection/difference (module functions), the operators | & - ^ and the in-place forms |= &= -= ^= of '
                    'the real compiled and pure-Python code are executed on two operands of every kind (Set, TreeSet, Bucket, BTree, '
                    'plain list, iterator, None) whose keys are symbolic: container operands hold strictly increasing symbols, '
                    'list/iterator operands unordered symbols, so every interleaving pattern, every permutation and every '
                    'duplicate pattern is a solver-enumerated path. Asserted per path: keys equal the list-based mathematical '
                    'result, strictly ascending, documented result kind, difference keeps the first operand\'s values, None rules '
                    '(identity), result is new, operands that are not the in-place target are unchanged (element identity and order).',
        functions=['_OOBTree.so: set_operation, initSetIteration, nextBucket/nextSet/nextBTreeItems/nextTreeSetItems/nextGenericKeyIter, '
                   'copyRemaining, union_m/intersection_m/difference_m, bucket_sub/or/and, set_isub/ior/ixor/iand, Generic_set_xor, '
                   'TreeSet_isub/ior/ixor/iand', 'BTrees._base: union, intersection, difference, _set_operation, _SetIteration, '
                   '_ArithmeticMixin, _MutableSetMixin.__ior__/__iand__/__isub__/__ixor__'],
        assumptions=COMMON_ASSUME[:1],
    ),
    'C06': dict(
        families=['OO'],
        gen=lambda tier, seed: state_obligations('C06', tier, seed),
        explanation='For every catalogue shape with symbolic keys, the container is built in both implementations; the state graph '
                    'obtained through __getstate__ is rebuilt object by object through __setstate__ into the same and into the '
                    'OTHER implementation (C->C, C->Py, Py->C, Py->Py; this is what unpickling does, without realising the '
                    'symbols); each rebuilt container must have equal ordered contents, pass both checkers and the independent '
                    'walker, find every key, have an equal state graph, and perform one further solver-chosen mutation with a '
                    'symbolic key like the model; the C and Python state graphs must be equal; copy.copy likewise. Two storage '
                    'situations: every node has an oid (stored tree: no inline leaf states) and none has (fresh tree: root '
                    'embeds its single leaf). Bytes: on a solver model of every path the concrete container is pickled by both '
                    'implementations with protocols 0..5 (byte-for-byte equal), unpickled and deep-copied, and checked again.' + ' Round 3: the follow-up operation on the four (source, target) reloads of one state must leave four equal serialized states; a reachable state that __setstate__ rejects is a violation.',
        functions=['_OOBTree.so: BTree_getstate, _BTree_setstate, bucket_getstate, _bucket_setstate, set_getstate(bucket_getstate), '
                   '_set_setstate, BTree/Bucket __reduce__ via persistent', 'BTrees._base: _Tree.__getstate__/__setstate__, '
                   'Bucket.__getstate__/__setstate__, Set.__getstate__/__setstate__, _Base.__reduce__/_BTree_reduce_as'],
        assumptions=COMMON_ASSUME + ['pickle itself is outside the repository; it is exercised on one solver-chosen concrete '
                                     'witness per explored path'],
    ),
    'C18': dict(
        families=['OO'],
        gen=lambda tier, seed: corrupt_obligations('C18', tier, seed),
        explanation='Every catalogue shape with symbolic keys is first shown to be accepted by _check() and BTrees.check.check(); '
                    'then ONE corruption of a solver-chosen class instance is applied to the state of one node and loaded through '
                    '__setstate__: replace the key at a solver-chosen position by a symbolic key, swap adjacent keys, duplicate a '
                    'key (inside a leaf or across a leaf boundary), replace a separator by a symbolic key, drop a next link, '
                    'redirect a next link to a solver-chosen leaf, empty a leaf, point a firstbucket at a solver-chosen leaf, wrap a '
                    'leaf child in an interior node (mixed child kinds). Oracle: the independent walker. Walker-invalid implies a '
                    'checker raises AssertionError; walker-valid (the symbolic key landed in range) implies both accept.' + ' Round 3: corruption class emptynode (an additional empty interior child).',
        functions=['BTrees.check: check, Checker.check_sorted, Walker.walk, crack_btree, crack_bucket, classify', '_OOBTree.so: BTree_check, '
                   'BTree_check_inner', 'BTrees._base: _Tree._check'],
        assumptions=COMMON_ASSUME + ['single corruption of a state reachable through __setstate__'],
    ),
    'C14': dict(
        families=['OO'],
        gen=lambda tier, seed: cmpfail_obligations('C14', tier, seed),
        explanation='The key class raises CmpError on its f-th comparison, f a solver variable in 0..20 (0 = never). From every '
                    'catalogue shape (and leaves of 0/1/3 keys) with symbolic keys, one public call (lookup, insert/replace/'
                    'setdefault, delete/pop, range search, minKey/maxKey, update, in-place set operators; selector and argument '
                    'keys solver-chosen) runs on the real C and Python code. Asserted on every path: a fault that was reached '
                    'surfaces as CmpError (never swallowed); afterwards the contents are the previous ones or the completed change '
                    '(multi-key calls: no invented/lost key), both checkers and the walker accept, two further operations behave like '
                    'the model, and for C every key object\'s reference count returns to its baseline when the container is dropped.' + ' Round 3: /exc obligations raise the fault as a subclass of ValueError / KeyError / TypeError / IndexError / AttributeError (class solver-chosen) on leaves and the smallest multi-leaf shapes.',
        functions=['_OOBTree.so: BTREE_SEARCH/BUCKET_SEARCH error exits, _BTree_set (incl. rollback of the first leaf), _BTree_get, '
                   '_bucket_set, _bucket_get, BTree_findRangeEnd, BTree_rangeSearch, BTree_maxminKey, Bucket_*, set_i*/TreeSet_i*, update',
                   'BTrees._base: _Tree._set/_del/_search/_findbucket, Bucket._set/_del/_search/_range, keys/minKey/maxKey'],
        assumptions=COMMON_ASSUME + ['the fault is raised by key comparisons only (not by value comparison or hashing)'],
    ),
    'C04': dict(
        families=['OO', 'II', 'UU', 'LL', 'QQ'],
        gen=lambda tier, seed: commit_obligations('C04', tier, seed),
        explanation='Each catalogue shape with symbolic keys is stored through a mini object database (harness/minidb.py: real '
                    'persistent.PickleCache, register/readCurrent/setstate as the real code calls them, commit writes exactly the '
                    'registered objects plus objects newly reachable from their states). The writer then optionally turns every '
                    'node into a ghost (solver-chosen), performs one solver-chosen mutating call with a symbolic key, and the '
                    'transaction is cut by commit or abort (solver-chosen); optionally a second operation and cut follow. After a '
                    'commit a fresh connection loads the stored records: equal contents, every key found by lookup, both '
                    'checkers and the walker accept; the writer sees the same. After an abort the writer sees the last committed '
                    'contents in a sound tree. A missing change notification on any path therefore shows as a stale record.' + IR_LEAF_TEXT +
                    '_bucket_set calls the persistence API\'s changed() and sets *changed exactly when it modified the leaf (a replace by an '
                    'equal value, an insert-if-absent of a present key and a failed delete do neither).' + IR_TREE_TEXT + IR_TREE_WHAT['notify'] + '.',
        functions=[IR_TREE_FUNCS, '_OOBTree.so: PER_CHANGED sites of _bucket_set, bucket_split, Bucket_deleteNextBucket, _BTree_set (changed accumulator), '
                   'BTree_split, BTree_grow, BTree_getstate/_BTree_setstate, bucket_getstate/_bucket_setstate, _p_deactivate', 'BTrees._base: '
                   '_Tree._set/_del/_grow/_split (_p_changed), Bucket._set/_del, __getstate__/__setstate__'],
        assumptions=COMMON_ASSUME + ['harness/minidb.py models the data-manager contract of persistent/ZODB (trusted; ZODB itself is '
                                     'not installed): optimistic commit of registered + newly reachable objects, invalidation on abort'],
    ),
    'C05': dict(
        families=['OO', 'II', 'UU', 'LL', 'QQ'],
        gen=lambda tier, seed: evict_obligations('C05', tier, seed),
        explanation='Each catalogue shape with symbolic keys is stored in the mini object database; all its nodes are ghosts or all '
                    'active (solver-chosen); one public call (lookups, writes, deletes, range searches, minKey/maxKey, and calls that '
                    'fail because of an unusable key or bound; selector and key solver-chosen) runs while the e-th key comparison '
                    'inside it (e solver-chosen: which comparison, or none) sweeps the whole object cache (PickleCache.minimize: '
                    'everything not pinned and not modified becomes a ghost). Asserted: immediately after the call no node of the '
                    'cache is in the sticky state; result, exception class and contents equal the un-cached model; after evicting '
                    'everything again the tree reads the same; after commit a fresh reader sees the same.' + IR_LEAF_TEXT +
                    'on the paths where the argument cannot be converted (integer far outside the key range) _bucket_get and '
                    'Bucket_findRangeEnd return with the leaf\'s persistence state exactly as at entry (PER_USE matched by PER_UNUSE).' + IR_TREE_TEXT + IR_TREE_WHAT['pins'] + '.' + ' Round 3: module-level set functions, isdisjoint (also unbound), update and the set operators on operands that are ghosts or active per solver-chosen flags, of solver-chosen kinds; the result must equal the all-active twin and nothing may stay pinned.',
        functions=[IR_TREE_FUNCS, '_OOBTree.so: PER_USE/PER_UNUSE/PER_ALLOW_DEACTIVATION bracketing in _BTree_get, _BTree_set, BTree_findRangeEnd, '
                   'BTree_rangeSearch, BTree_maxminKey, _bucket_get/_bucket_set, Bucket_maxminKey, BTreeItems_seek, PreviousBucket, '
                   'BTree_length_or_nonzero, BTree__p_deactivate, bucket__p_deactivate, _BTree_clear, _bucket_clear', 'BTrees._base (no pinning; '
                   'relies on persistent reloading)'],
        assumptions=COMMON_ASSUME + ['harness/minidb.py + persistent.PickleCache stand for the object cache of a ZODB connection'],
    ),
    'C08': dict(
        families=['OO'],
        gen=lambda tier, seed: txn_obligations('C08', tier, seed),
        explanation='A catalogue shape with symbolic keys is stored in the mini object database; two connections load it and each '
                    'performs one operation (insert or value change, delete, clear; kind and key solver-chosen) on its own copy; '
                    'the first commits, then the second under optimistic concurrency control: serial check, readCurrent '
                    'verification and _p_resolveConflict called as ZODB does. Asserted on every path: the second commit raises a '
                    'conflict error (stored tree = first transaction\'s, sound), or a third connection loads a sound tree whose '
                    'contents equal the serial result or the original with both disjoint net change sets applied. Every write '
                    'logs readCurrent for each stored interior node on its descent path (path computed from the stored states with '
                    'the model order); lookups, range queries, len, bool and iteration log none.',
        functions=['_OOBTree.so: _BTree_set (PER_READCURRENT), bucket__p_resolveConflict, bucket_merge, BTree__p_resolveConflict, '
                   'get_bucket_state, BTree_getstate/_setstate, _BTree_clear', 'BTrees._base: _Tree._set/_del (readCurrent), '
                   'Bucket/Set/_Tree._p_resolveConflict, clear'],
        assumptions=COMMON_ASSUME + ['harness/minidb.py models optimistic commit with conflict resolution the way ZODB performs it '
                                     '(one reference object per oid per resolution); two connections, one operation each'],
    ),
    'C15': dict(
        families=['OO'],
        asan=True,
        gen=lambda tier, seed: iter_obligations('C15', tier, seed),
        explanation='From small catalogue shapes with symbolic keys an iterator (iter, iterkeys, iteritems) or a lazy sequence '
                    '(keys(), items(), values()) is created on the real C and Python containers and a schedule of iteration steps '
                    'and mutations is executed: the pattern of step kinds is enumerated (one obligation per pattern), the keys '
                    'inserted/deleted and the sequence indices are solver variables, so deleting, emptying or unlinking exactly the '
                    'leaf the cursor is parked on, and indexing backwards across it, are solver-found paths. Every step must yield '
                    'an entry that was in the container at some point, end, or raise RuntimeError/IndexError; afterwards contents '
                    'equal the model of the mutations and checkers + walker accept. A path on which the interpreter dies is '
                    'recovered from the decision journal, solved for concrete arguments and replayed natively.',
        functions=['_OOBTree.so: BTreeIter_next, buildBTreeIter, BTreeItems_seek, BTreeItems_item, BTreeItems_length, PreviousBucket, '
                   'newBTreeItems, Bucket_getiter/bucket iterators, _BTree_set, _BTree_clear, Bucket_deleteNextBucket', 'BTrees._base: '
                   '_TreeItems, _Tree.iterkeys/iteritems/__iter__, Bucket iteration'],
        assumptions=COMMON_ASSUME + ['schedules up to the stated pattern length; single thread'],
    ),
    'C16': dict(
        families=['OO', 'II', 'QQ'],
        families_thorough=['OO', 'II', 'UU', 'LL', 'QQ'],
        asan=True,
        gen=lambda tier, seed: ref_obligations('C16', tier, seed),
        explanation='Compiled OO containers are built from catalogue shapes (loaded through __setstate__ and grown through the API) '
                    'whose keys AND values are distinct Python objects with symbolic order. Before and after one solver-chosen call '
                    '(insert/replace/setdefault/update, delete/pop/popitem/clear, lookups and iteration, range searches with '
                    'exclusive/omitted bounds and lazy-sequence indexing, set algebra and operators, in-place operators, state '
                    'capture/copy/__setstate__/conflict merge/_check) the reference count of every key and value object must '
                    'exceed its baseline by exactly the number of leaf and separator slots holding it (counted from the state '
                    'graph); read-only calls must leave every node\'s reference count unchanged; after the container is destroyed '
                    'every count is back at its baseline. Over-releases that kill the interpreter are replayed via the decision journal.' + IR_TREE_TEXT + IR_TREE_WHAT['refs'] + '.',
        functions=[IR_TREE_FUNCS, '_OOBTree.so: INCREF/DECREF pairing in _bucket_set, bucket_split, BTree_grow, BTree_split, _BTree_set (separator '
                   'ownership), _bucket_clear, _BTree_clear, BTree_rangeSearch, newBTreeItems, BTreeItems_*, set_operation, '
                   'finiSetIteration, bucket_merge, bucket_getstate/_setstate, BTree_getstate/_setstate, deallocators'],
        assumptions=COMMON_ASSUME + ['memory bounds are observed only through crashes / reference-count drift here (no sanitizer build '
                                     'in the quick tier)'],
    ),
    'C17': dict(
        families=['OO', 'fs', 'II', 'QQ'],
        families_thorough=['OO', 'fs', 'II', 'UU', 'LL', 'QQ'],
        asan=True,
        hook=True,
        gen=lambda tier, seed: oom_obligations('C17', tier, seed),
        explanation='Built with the BTREES_VERIF hook. From every catalogue shape (loaded and grown; shapes about to split at leaf, '
                    'interior and root level are in the stratified core) and from bare leaves, one allocating call with symbolic keys '
                    '(insert/setdefault/update, multi-key update and in-place operators, delete, set algebra and operators, '
                    '__setstate__ into fresh and used objects, conflict merge, copy construction) is first run on a twin to count '
                    'the BTree_Malloc/BTree_Realloc calls it makes on this path; then the n-th of them (n solver-chosen, or none) is '
                    'made to fail. Asserted: MemoryError reaches the caller iff an allocation failed; contents are the previous ones '
                    'or the completed change (multi-key: nothing invented); checkers + walker accept; two further operations and a '
                    'follow-up workload behave; the container is destroyed (a dangling or doubly freed block kills the interpreter, '
                    'which the decision journal turns into a replayed violation).' + ' Round 3: nodes modified by a call that then fails must have been announced to their data manager; fsBucket.fromBytes with a size palette; engine E2: _BTree_set of the native-key families from IR with the n-th malloc/realloc refused in turn (MemoryError, previous-or-completed contents, soundness incl. vector sizes, announcements, no leak, no double free) on fully symbolic words.',
        functions=['_OOBTree.so: BTree_Malloc, BTree_Realloc, Bucket_grow, bucket_split, BTree_grow, BTree_split, BTree_split_root, '
                   '_bucket_setstate, _set_setstate, _BTree_setstate, bucket_merge, set_operation, copyRemaining, bucket_append'],
        stubs=['allocation failure is injected only in BTree_Malloc/BTree_Realloc (hook); CPython-internal allocations never fail'],
        assumptions=COMMON_ASSUME,
    ),
    'C09': dict(
        families=DIFF_FAMILIES_QUICK,
        families_thorough=DIFF_FAMILIES_ALL,
        gen=lambda tier, seed: diff_obligations('C09', tier, seed),
        explanation='(1) The same solver-chosen public call with symbolic keys is applied to a C and a Python container built from the '
                    'same catalogue shape and the same key objects (loaded and grown): result, exception class, ordered contents and '
                    'the normalised state graph (hence the shape after splits/unlinks and the serialized state) must be equal on '
                    'every path. (2) For native and object-key families, a call kind, an argument and a container size are '
                    'solver-chosen selectors into palettes (18 integers around every type boundary, 20 values of other Python types '
                    'incl. bools, floats, inf/nan, str, bytes of several lengths, tuples, objects with default and with custom '
                    'comparison) and both implementations must agree on raise-vs-return, exception class, exact-typed result and '
                    'contents; rejected writes leave the contents unchanged.',
        functions=['all public methods of both implementations; conversion layer: intkeymacros.h / intvaluemacros.h / floatvaluemacros.h / '
                   'objectkeymacros.h / _fsBTree.c vs BTrees._datatypes'],
        assumptions=COMMON_ASSUME + ['part (2) is solver-enumeration of selector tuples over concrete palettes: the compiled native-key '
                                     'code unboxes keys, so they cannot stay symbolic there'],
    ),
    'C13': dict(
        families=REPR_QUICK,
        families_thorough=REPR_ALL,
        gen=lambda tier, seed: repr_obligations('C13', tier, seed),
        explanation='(1) Pure-Python native-integer families (32/64 bit, signed/unsigned): an UNBOUNDED symbolic integer is offered as '
                    'key or value through every writing entry point (item assignment, insert, setdefault, update, constructor, add, '
                    '|=) of every container kind, empty or holding keys; CrossHair executes BTrees._datatypes and _base on the '
                    'symbol (struct\'s packer replaced by a calibrated range-contract stub) and z3 decides for ALL integers: '
                    'accepted iff inside the family range, accepted data reads back equal, rejected data raises TypeError and '
                    'leaves the container unchanged, lookups of unrepresentable keys report absence. (2) Compiled and Python classes '
                    'of the native, bytes, float and object families: (entry point, argument) are solver-chosen selectors into '
                    'palettes of 18 boundary integers, 14 floats (incl. float32 limits, subnormals, inf/nan), 11 values of other types, '
                    'including __setstate__; oracle = the declared domain with exact-typed read-back (floats: IEEE single rounding). '
                    '(3) Engine E2: the family source is lowered by clang to LLVM IR and the code of COPY_KEY_FROM_ARG / '
                    'COPY_VALUE_FROM_ARG (with the real longlong_convert / ulonglong_convert helpers) is executed symbolically on a fake '
                    'PyLong whose value is an UNBOUNDED z3 integer (CPython API calls replaced by contract stubs): the argument is '
                    'accepted iff it is an int inside the type\'s range, the stored machine word then denotes exactly that integer, '
                    'otherwise TypeError is set and the target is not written - for all integers, for int/unsigned/long long/'
                    'unsigned long long keys and values.' + ' Round 3: entries update_container / ctor_container / update_container_value hand the datum over inside a container of a wider (object) family.',
        functions=['BTrees._datatypes: _AbstractNativeDataType.__call__, I/U/L/Q/F/f/s/O/Any', 'intkeymacros.h, intvaluemacros.h '
                   '(COPY_KEY_FROM_ARG, COPY_VALUE_FROM_ARG, longlong_convert, ulonglong_convert), floatvaluemacros.h, objectkeymacros.h '
                   '(check_argument_cmp), _fsBTree.c, as compiled into _bucket_set/_BTree_set/_bucket_setstate/_set_setstate'],
        stubs=['struct.Struct(fmt).pack for i/I/q/Q: accepts exactly the integers of the format range (calibrated against struct at start-up)',
               'operator.index for ints (identity)',
               'E2: PyLong_AsLong, PyLong_AsLongLongAndOverflow, PyLong_AsUnsignedLongLong (result / overflow / OverflowError per the CPython '
               'documentation, over an unbounded integer), PyErr_Occurred/ExceptionMatches/Clear/SetString (one error-indicator cell), '
               'Py_TYPE/PyType_HasFeature run from IR on a fake object whose tp_flags carry the solver-chosen int-ness'],
        assumptions=['compiled containers: arguments are concrete palette values selected by the solver (keys are unboxed in C); the E2 part '
                     'covers the conversion macros only, not the container code around them'],
    ),
    'C12': dict(
        families=['OL', 'IF'],
        gen=lambda tier, seed: weighted_obligations('C12', tier, seed),
        explanation='weightedUnion / weightedIntersection of the object-key, 64-bit-value family OL on two operands of every kind '
                    '(Set, TreeSet, Bucket, BTree, None) whose keys are symbolic in both implementations (every interleaving of the '
                    'two key sequences is a solver-enumerated path); values and weights are symbolic integers in the Python '
                    'implementation (the real _base.weightedUnion/_set_operation code multiplies symbols; z3 decides) and '
                    'solver-chosen palette entries incl. weights that do not fit 32 bits in C. Oracle: the formula documented in '
                    'Interfaces.IMerge in exact integers (result weight, result kind, keys, v1*w1 + v2*w2, set member = 1, missing = 0, '
                    'both sets -> plain set with weight 1 / w1+w2, None short-circuits returning the operand itself, default weights). '
                    'Float family IF: concrete keys, palettes of values/weights exact in single precision, all operand kind pairs.',
        functions=['_OLBTree.so/_IFBTree.so: wunion_m, wintersection_m, set_operation (operand swap, MERGE, MERGE_WEIGHT, MERGE_DEFAULT, '
                   'copyRemaining)', 'BTrees._base: weightedUnion, weightedIntersection, _set_operation, MERGE/MERGE_WEIGHT of _datatypes'],
        assumptions=['no intermediate result leaves the 64-bit value range (overflow is outside the documented formula)',
                     'compiled code: values and weights are concrete palette entries chosen by the solver'],
    ),
    'C11': dict(
        families=MULTI_QUICK,
        families_thorough=MULTI_ALL,
        gen=lambda tier, seed: multi_obligations('C11', tier, seed),
        explanation='(1) Pure-Python multiunion: up to 3 (4) symbolic integers ranging over the WHOLE family range (both extremes are '
                    'models), split between one or two operands of solver-chosen kinds (integers, Set, TreeSet, Bucket, BTree, list); '
                    'the real _base.multiunion / update code runs on the symbols (struct replaced by the calibrated stub); result must '
                    'be the sorted duplicate-free union, every member found, range query exact. (2) Compiled multiunion (and the '
                    'Python one on the smaller sizes): total size on both sides of the 800-element switch, spacing of the bulk keys '
                    '(which bytes vary, hence which radix passes run), the boundary keys mixed in (extremes, top-bit keys of the '
                    'unsigned families, byte boundaries), duplicates and the operand layout are solver-chosen selectors. (3) Engine E2: the '
                    'repository\'s sorters.c, compiled to LLVM IR by clang with the family\'s key type, is executed by a symbolic IR '
                    'interpreter on n FULLY SYMBOLIC machine words (z3 bit-vectors): uniq (in place and copying), quicksort and '
                    'sort_int_nodups return, on every feasible path, the strictly ascending duplicate-free set / the sorted permutation '
                    'of their input in the family\'s own (signed or unsigned) order; no assert() of the source is reachable; every '
                    'load/store stays inside live memory. The interpreter is validated against the natively compiled kernels on '
                    'random and boundary vectors before every obligation.',
        functions=['_XXBTree.so: multiunion_m, bucket_append, sort_int_nodups, radixsort_int, quicksort, uniq', 'BTrees._base.multiunion, Set.update',
                   'sorters.c as LLVM IR (engine E2): uniq, quicksort, sort_int_nodups for int / unsigned int / long long / unsigned long long keys'],
        stubs=['struct.Struct(fmt).pack contract stub for the Python side'],
        assumptions=['compiled code: keys are concrete (unboxed in C); the selectors enumerate sizes / spacings / boundary mixes'],
    ),
}
