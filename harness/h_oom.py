"""C17: an allocation failure inside an operation is reported, not corrupting.

Needs the BTREES_VERIF build (allocation-failure countdown in
BTree_Malloc/BTree_Realloc, armed through _verif_fail_alloc_after).
P: kind, tpl/L/I/prov or n, group;  C implementation only.
ks: strictly increasing symbolic keys; a: x, y, op, n (index of the failing
    allocation; beyond the allocations the call makes = fault-free path)
"""
import gc
import sys

from engine import shapes
from harness import common
from harness.common import Model, fail, keq, klt, same_keys, same_pairs
from harness import keys as keys_mod
from harness.keys import K
from harness import h_step
from harness.h_step import prestate, contents, map_op, set_op, VNEW, NOPS

GROUPS = {'write': 4, 'bulk': 3, 'setop': 6, 'state': 4, 'del': 3}
NMAX = 12


def _ident(st):
    """a serialised state with every object replaced by its identity (keys must not be compared here)"""
    if isinstance(st, tuple):
        return tuple(_ident(x) for x in st)
    return id(st)


def arm(mod, n):
    return mod._verif_fail_alloc_after(n)


def oom_step(P, ks, a):
    op = common.choose(a['op'], GROUPS[P['group']])
    with common.untraced():
        _oom_step(P, ks, a, op)


def perform(t, m, P, cl, grp, op, x, y, is_set, kk):
    """-> (exception class name or None, expected model after completion is in m)"""
    kind = P['kind']
    mod = cl['module']
    try:
        if grp == 'write':
            if is_set:
                if op == 0:
                    t.add(x)
                elif op == 1:
                    t.insert(x)
                elif op == 2:
                    t.update([x])
                else:
                    t.add(x)
            elif op == 0:
                t[x] = VNEW
            elif op == 1:
                t.setdefault(x, VNEW)
            elif op == 2:
                (t.insert(x, VNEW) if kind == 'BTree' else t.update([(x, VNEW)]))
            else:
                t.update({x: VNEW})
        elif grp == 'bulk':
            if is_set:
                (t.update([x, y]) if op == 0 else t.__ior__([x, y]) if op == 1 else t.__ixor__(cl['Set']([x])))
            else:
                (t.update([(x, VNEW), (y, VNEW)]) if op < 2 else t.update(cl['Bucket']([(x, VNEW)])))
        elif grp == 'del':
            try:
                if is_set:
                    (t.remove(x) if op == 0 else t.discard(x) if op == 1 else t.pop())
                else:
                    (t.__delitem__(x) if op == 0 else t.pop(x, None) if op == 1 else t.popitem())
            except KeyError:
                pass
        elif grp == 'setop':
            other = cl['Set']([x, y]) if y is not x else cl['Set']([x])
            r = (mod.union(t, other) if op == 0 else mod.intersection(t, other) if op == 1 else mod.difference(t, other)
                 if op == 2 else (t | other) if op == 3 else mod.union([x, y], t) if op == 4 else (t - [x]))
            del r
        else:   # state
            if op == 0:
                t2 = cl[kind]()
                t2.__setstate__(t.__getstate__())
                del t2
            elif op == 1:
                leafc = cl['Set' if is_set else 'Bucket']
                if len(kk) > 1:
                    old = tuple(kk[:2]) if is_set else (kk[0], 1, kk[1], 2)
                    com = old + ((x,) if is_set else (x, 3))
                    new = ((y,) if is_set else (y, 4)) + old
                    from BTrees.Interfaces import BTreesConflictError
                    try:
                        leafc()._p_resolveConflict((old,), (com,), (new,))
                    except BTreesConflictError:
                        pass
            elif op == 2:
                # state loaded into an object that already owns (smaller) vectors; the object is
                # used again after a failed load
                b = cl['Set' if is_set else 'Bucket']()
                b.__setstate__((tuple(kk[:1]) if is_set else ((kk[0], 1) if kk else ()),))
                failed = None
                try:
                    b.__setstate__((tuple(kk) if is_set else tuple(z for k in kk for z in (k, 1)),))
                except MemoryError:
                    failed = 'MemoryError'
                if len(b) not in (0, len(kk)):
                    return 'partial-setstate'
                (b.add(x) if is_set else b.__setitem__(x, 1))
                if not ((x in b) and len(list(b.keys())) == len(b)):
                    return 'unusable-after-failed-setstate'
                b.clear()
                del b
                if failed:
                    return failed
            else:
                c2 = cl[kind](t)
                del c2
    except MemoryError:
        return 'MemoryError'
    except Exception as e:          # noqa
        return type(e).__name__
    return None


def model_after(m, grp, op, x, y, is_set, kind='BTree'):
    r = m.copy()
    v = None if is_set else VNEW
    if grp == 'write':
        if is_set or op in (0, 3) or (op == 2 and kind != 'BTree'):
            r.set(x, v)
        elif not r.has(x):
            r.set(x, v)
    elif grp == 'bulk':
        if is_set and op == 2:
            if not r.delete(x):
                r.set(x, None)
        elif not is_set and op == 2:
            r.set(x, v)
        else:
            r.set(x, v)
            r.set(y, v)
    elif grp == 'del':
        if op == 2:
            if len(r):
                r.delete(r.keys()[0])
        else:
            r.delete(x)
    return r


def _oom_step(P, ks, a, op):
    cl = h_step.classes(dict(P, impl='c'))
    mod = cl['module']._module if hasattr(cl['module'], '_module') else None
    import importlib
    cmod = importlib.import_module('BTrees._%sBTree' % P['family'])
    if not hasattr(cmod, '_verif_fail_alloc_after'):
        raise RuntimeError('extension built without the BTREES_VERIF hook')
    kind = P['kind']
    is_set = kind in ('TreeSet', 'Set')
    is_tree = kind in ('BTree', 'TreeSet')
    grp = P['group']
    keys_mod.reset()
    kk = [K(k, i) for i, k in enumerate(ks)]
    x = K(a['x'])
    y = K(a['y']) if 'y' in a else x
    ctx = {'harness': 'oom_step', 'kind': kind, 'group': grp, 'op': op}
    # dry run on a twin: how many allocations does this call make on this path?
    t, m, _ = prestate(dict(P, impl='c'), ks, False, kk)
    arm(cmod, -1)
    e0 = perform(t, m, P, cl, grp, op, x, y, is_set, kk)
    nalloc = arm(cmod, -1)
    del t
    if e0 not in (None,):
        fail('the call raised %s without any allocation failure' % e0, ctx)
        return
    nalloc = min(nalloc, NMAX)
    with common.traced():
        n = common.choose(a['n'], nalloc + 1)       # n == nalloc: no allocation fails
    ctx.update(n=n, nalloc=nalloc)
    t, m, _ = prestate(dict(P, impl='c'), ks, False, kk)
    m0 = m.copy()
    m1 = model_after(m, grp, op, x, y, is_set, kind)
    # every node is a database record with a data manager, as after a load: what the call modifies must be announced,
    # also when the call then fails with MemoryError (the in-memory tree is what the next commit is taken from)
    jar, pre_nodes, pre_state = None, [], {}
    if is_tree and grp in ('write', 'bulk', 'del') and P.get('prov') == 'loaded':
        from harness.h_kernel import _Jar, _nodes
        jar = _Jar()
        pre_nodes = _nodes(t)
        embedded = len(pre_nodes) == 2 and t.__getstate__() is not None and len(t.__getstate__()) == 1
        for i_, n_ in enumerate(pre_nodes):
            if embedded and n_ is not t:
                continue
            n_._p_jar = jar
            n_._p_oid = b'oom%05d' % i_
        pre_state = {id(n_): _ident(n_.__getstate__()) for n_ in pre_nodes}
    arm(cmod, n if n < nalloc else -1)
    exc = perform(t, m, P, cl, grp, op, x, y, is_set, kk)
    calls = arm(cmod, -1)
    fired = n < nalloc and calls > n
    if jar is not None:
        for n_ in pre_nodes:
            if n_._p_jar is jar and _ident(n_.__getstate__()) != pre_state[id(n_)] and not n_._p_changed:
                fail('a node was modified%s but not announced to its data manager (the next commit would not store it)'
                     % (' by a call that failed with MemoryError' if fired else ''), dict(ctx, node=type(n_).__name__, fired=fired))
    if fired:
        if exc != 'MemoryError':
            fail('an allocation failed inside the call but the caller got %s instead of MemoryError' % exc, ctx)
    elif exc is not None:
        fail('the call raised %s although no allocation failed' % exc, ctx)
    try:
        c = contents(t, is_set)
    except Exception as e:          # noqa
        fail('reading the contents after the allocation failure raised %s' % type(e).__name__, ctx)
        return
    eq0 = same_keys(c, m0.keys()) if is_set else same_pairs(c, m0.pairs())
    eq1 = same_keys(c, m1.keys()) if is_set else same_pairs(c, m1.pairs())
    if grp in ('setop', 'state'):
        if not eq0:
            fail('a failed non-mutating call changed the container', ctx)
        mm = m0
    elif not fired:
        if not eq1:
            fail('contents differ from the model', ctx)
        mm = m1
    elif not (eq0 or eq1):
        if grp == 'bulk':
            ck = c if is_set else [i[0] for i in c]
            for k in ck:
                if not m0.has(k) and not m1.has(k):
                    fail('a failed multi-key call invented a key', ctx)
            mm = Model([(k, None) for k in c] if is_set else c)
        else:
            fail('after MemoryError the contents are neither the previous ones nor the completed change', ctx)
            return
    else:
        mm = m0 if eq0 else m1
    if len(t) != len(mm):
        fail('len() inconsistent after the allocation failure', ctx)
    if is_tree:
        h_step.sound(t, dict(P, L=None, I=None), cl, 'after the allocation failure', ctx)
    # the container stays usable
    for kx in (x, y):
        if is_set:
            g1, e1, w1, we1, _ = set_op(t, mm, 'write', 0, kx, kx, True)
            g2, e2, w2, we2, _ = set_op(t, mm, 'del', 0, kx, kx, True)
        else:
            g1, e1, w1, we1, _ = map_op(t, mm, 'write', 0, kx, kx, VNEW + 1, kind == 'BTree')
            g2, e2, w2, we2, _ = map_op(t, mm, 'del', 0, kx, kx, VNEW + 1, kind == 'BTree')
        if e1 != we1 or e2 != we2:
            fail('a later operation misbehaves after the allocation failure', ctx, e1, e2)
    c = contents(t, is_set)
    if not (same_keys(c, mm.keys()) if is_set else same_pairs(c, mm.pairs())):
        fail('contents wrong after later operations', ctx)
    if is_tree:
        h_step.sound(t, dict(P, L=None, I=None), cl, 'after later operations', ctx)
    # follow-up workload + destruction (a dangling block shows up here at the latest)
    for i, k in enumerate(kk):          # re-insert every original key (ranks decide: no new solver decisions), then drop all
        (t.add(k) if is_set else t.__setitem__(k, i))
    t.clear()
    del t
    gc.collect()


# ---------------------------------------------------------------------------
# the fs family's own allocating entry point: fsBucket.fromBytes (and toBytes round trip)

FS_SIZES = [0, 1, 2, 5, 3000]       # 3000: the vectors cannot grow in place, realloc moves them


def oom_fs(P, ks, a):
    """a: s0, s1 (sizes of the bucket before the call / of the state loaded, selectors into FS_SIZES), n (failing allocation)"""
    s0 = common.choose(a['s0'], len(FS_SIZES))
    s1 = common.choose(a['s1'], len(FS_SIZES))
    import importlib
    cmod = importlib.import_module('BTrees._fsBTree')
    if not hasattr(cmod, '_verif_fail_alloc_after'):
        raise RuntimeError('extension built without the BTREES_VERIF hook')
    with common.untraced():
        from BTrees.fsBTree import fsBucket

        def ents(n, tag):
            return [((2 * i + tag - 48).to_bytes(2, 'big'), bytes([97 + i % 26]) * 6) for i in range(n)]
        old, new = ents(FS_SIZES[s0], 48), ents(FS_SIZES[s1], 49)
        state = b''.join(k for k, _ in new) + b''.join(v for _, v in new)

        def fresh():
            b = fsBucket()
            for k, v in old:
                b[k] = v
            return b
        b = fresh()
        arm(cmod, -1)
        b.fromBytes(state)
        nalloc = min(arm(cmod, -1), NMAX)
        del b
    with common.traced():
        n = common.choose(a['n'], nalloc + 1)
    with common.untraced():
        ctx = {'harness': 'oom_fs', 'old': FS_SIZES[s0], 'new': FS_SIZES[s1], 'n': n, 'nalloc': nalloc}
        b = fresh()
        arm(cmod, n if n < nalloc else -1)
        try:
            b.fromBytes(state)
            exc = None
        except MemoryError:
            exc = 'MemoryError'
        except Exception as e:      # noqa
            exc = type(e).__name__
        calls = arm(cmod, -1)
        fired = n < nalloc and calls > n
        if fired and exc != 'MemoryError':
            fail('an allocation failed inside fromBytes but the caller got %s instead of MemoryError' % exc, ctx)
        if not fired and exc is not None:
            fail('fromBytes raised %s although no allocation failed' % exc, ctx)
        got = list(b.items())
        if got != (new if not fired else old) and got != new:
            fail('after fromBytes the contents are neither the previous ones nor the loaded state', ctx, got)
        # the bucket stays usable and can be destroyed (a dangling or doubly freed vector kills the interpreter here)
        for i in range(12):
            b[bytes([250, 48 + i])] = b'zzzzzz'
        if len(list(b.keys())) != len(b) or sorted(b.keys()) != list(b.keys()):
            fail('the bucket is damaged after a failed fromBytes', ctx)
        if b.toBytes() != fsBucket().fromBytes(b.toBytes()).toBytes():
            fail('toBytes/fromBytes do not round-trip', ctx)
        b.clear()
        del b
        gc.collect()
