"""C16 (reference accounting): the C extension holds exactly one reference per
occupied key slot, value slot and separator slot, and releases it when the
entry goes away or the container is destroyed.

P: kind, tpl/L/I/prov/hist, group; C implementation only.
ks: strictly increasing symbolic stored keys; a: x, y (argument keys), op
Every key AND every value is a distinct Python object (class K), so each
reference count is meaningful.  All measurements are taken from an outer frame
after the inner frames (and their temporaries) are gone.
"""
import gc
import sys
import copy

from engine import shapes
from harness import common
from harness.common import fail, keq, klt
from harness import keys as keys_mod
from harness.keys import K
from harness import h_step
from harness.h_merge import Ref

GROUPS = {'write': 4, 'del': 5, 'read': 8, 'range': 8, 'setop': 9, 'state': 5, 'inplace': 4}


def refs(objs, collect=False):
    if collect:
        gc.collect()
    return [sys.getrefcount(o) for o in objs]


def build(P, cl, kk, vv):
    kind = P['kind']
    if P.get('prov') == 'grown':
        return shapes.build_grown(P['hist'], kk, cl, kind, lambda r: vv[r])
    return shapes.build_loaded(P['tpl'], kk, cl, kind, lambda r: vv[r])


def slot_counts(t, objs, cl, kind):
    """how many slots of the container hold each object: occurrences in the state
    graph (leaf items, separators).  Returns plain ints; every temporary dies here."""
    is_set = kind in ('TreeSet', 'Set')
    tree_cls = cl['TreeSet' if is_set else 'BTree']
    ids = {id(o): i for i, o in enumerate(objs)}
    cnt = [0] * len(objs)
    tg = shapes.tag_all(t) if type(t) is tree_cls else []
    try:
        seen = set()

        def leaf(b):
            if id(b) in seen:
                return
            seen.add(id(b))
            for x in b.__getstate__()[0]:
                i = ids.get(id(x))
                if i is not None:
                    cnt[i] += 1

        def rec(n):
            if type(n) is not tree_cls:
                leaf(n)
                return
            st = n.__getstate__()
            if st is None:
                return
            if len(st) == 1:
                for x in st[0][0][0]:
                    i = ids.get(id(x))
                    if i is not None:
                        cnt[i] += 1
                return
            for j, x in enumerate(st[0]):
                if j % 2:
                    i = ids.get(id(x))
                    if i is not None:
                        cnt[i] += 1
                else:
                    rec(x)
        rec(t)
    finally:
        shapes.untag(tg)
        rec = leaf = None       # break the closure cycles
    return cnt


def node_list(t, cl, kind):
    is_set = kind in ('TreeSet', 'Set')
    tree_cls = cl['TreeSet' if is_set else 'BTree']
    out = []
    if type(t) is not tree_cls:
        return out
    tg = shapes.tag_all(t)
    try:
        def rec(n):
            st = n.__getstate__()
            if st is None or len(st) == 1:
                return
            for x in st[0][::2]:
                out.append(x)
                if type(x) is tree_cls:
                    rec(x)
        rec(t)
    finally:
        shapes.untag(tg)
        rec = None
    return out


def do_op(t, P, cl, grp, op, x, y, vx, is_set, kk, vv):
    """-> True if the operation may have changed the container"""
    mod = cl['module']
    kind = P['kind']
    try:
        if grp == 'write':
            if is_set:
                (t.add, t.insert, lambda k: t.update([k, y]), t.add)[op](x)
            elif op == 0:
                t[x] = vx
            elif op == 1:
                t.setdefault(x, vx)
            elif op == 2:
                (t.insert(x, vx) if kind == 'BTree' else t.update([(x, vx)]))
            else:
                t.update([(x, vx), (y, vx)])
            return True
        if grp == 'del':
            try:
                if is_set:
                    (t.remove, t.discard, lambda k: t.pop(), lambda k: t.clear(), t.discard)[op](x)
                elif op == 0:
                    del t[x]
                elif op == 1:
                    t.pop(x)
                elif op == 2:
                    t.pop(x, None)
                elif op == 3:
                    t.popitem()
                else:
                    t.clear()
            except KeyError:
                pass
            return True
        if grp == 'read':
            if op == 0:
                (t.has_key(x) if is_set else t.get(x))
            elif op == 1:
                x in t
            elif op == 2:
                try:
                    (x in t) if is_set else t[x]
                except KeyError:
                    pass
            elif op == 3:
                list(t)
            elif op == 4:
                list(t.keys()) if is_set else list(t.items())
            elif op == 5:
                len(t), bool(t)
            elif op == 6:
                it = iter(t)
                try:
                    next(it)
                except StopIteration:
                    pass
                del it
            else:
                (list(t.keys()) if is_set else (list(t.values()), list(t.iteritems()), list(t.itervalues())))
            return False
        if grp == 'range':
            if op == 0:
                list(t.keys(x, y))
            elif op == 1:
                list(t.keys(min=x, excludemin=True))
            elif op == 2:
                list(t.keys(excludemax=True)), list(t.keys(excludemax=True)), list(t.keys(excludemin=True))
            elif op == 3:
                list(t.keys(max=x, excludemax=True))
            elif op == 4:
                try:
                    t.minKey(x)
                except ValueError:
                    pass
            elif op == 5:
                try:
                    t.maxKey(x)
                except ValueError:
                    pass
            elif op == 6:
                s = t.keys()
                n = len(s)
                for i in (n - 1, 0, -1, n // 2, 0):
                    try:
                        s[i]
                    except IndexError:
                        pass
                list(s[1:])
                del s
            else:
                s = t.keys(x) if is_set else t.items(x)
                for i in (0, -1, 1):
                    try:
                        s[i]
                    except IndexError:
                        pass
                del s
            return False
        if grp == 'setop':
            other = cl['Set']([x, y]) if x is not y else cl['Set']([x])
            o2 = cl['TreeSet' if is_set else 'BTree']([x] if is_set else [(x, vx)])
            if op == 0:
                mod.union(t, other)
            elif op == 1:
                mod.intersection(t, other)
            elif op == 2:
                mod.difference(t, other)
            elif op == 3:
                t | o2
            elif op == 4:
                t & o2
            elif op == 5:
                t - o2
            elif op == 6:
                mod.union([x, y], t)
            elif op == 7:
                mod.difference(t, [y, x])
            else:
                (t ^ other) if is_set else mod.intersection(o2, t)
            return False
        if grp == 'inplace':
            other = [x, y]
            if op == 0:
                t |= other
            elif op == 1:
                t &= other
            elif op == 2:
                t -= other
            else:
                t ^= cl['Set']([x, y]) if x is not y else [x]
            return True
        if grp == 'state':
            if op == 0:
                t.__getstate__()
            elif op == 1:
                c2 = copy.copy(t)
                list(c2.keys())
                del c2
            elif op == 2:
                t2 = cl[kind]()
                t2.__setstate__(t.__getstate__())
                t2.clear() if kind in ('Bucket', 'Set') else None
                del t2
            elif op == 3:
                # leaf-level conflict resolution on states built from the same objects
                leafc = cl['Set' if is_set else 'Bucket']
                old = tuple(kk[:2]) if is_set else (kk[0], vv[0], kk[1], vv[1]) if len(kk) > 1 else ()
                if len(kk) > 1:
                    com = (kk[0], kk[1], x) if is_set else (kk[0], vv[0], kk[1], vv[1], x, vx)
                    new = (y, kk[0], kk[1]) if is_set else (y, vx, kk[0], vv[0], kk[1], vv[1])
                    try:
                        leafc()._p_resolveConflict((old,), (com,), (new,))
                    except Exception:       # noqa: refusal or unordered state, both fine here
                        pass
                    # the same three states on a leaf that has a successor in the leaf chain: the merge result names
                    # the successor, whose reference count must come back to where it was
                    nxt = leafc()
                    (nxt.add(vx) if is_set else nxt.__setitem__(vx, vx))
                    keep = [nxt] * 8        # a lost reference must not free it under our feet
                    r_ = sys.getrefcount(nxt)
                    for _ in range(2):
                        try:
                            leafc()._p_resolveConflict((old, nxt), (com, nxt), (new, nxt))
                        except Exception:       # noqa
                            pass
                    keys_mod._MEMO.clear()
                    gc.collect()
                    if sys.getrefcount(nxt) != r_:
                        fail('conflict resolution changed the reference count of the successor leaf (%d)' % (sys.getrefcount(nxt) - r_),
                             {'harness': 'ref_step', 'kind': kind, 'group': grp, 'op': op, 'phase': 'merge_next'})
                    del keep, nxt
            else:
                t._check()
            return False
    except (KeyError, ValueError, IndexError, TypeError):
        return True
    return True


def ref_step(P, ks, a):
    op = common.choose(a['op'], GROUPS[P['group']])
    with common.untraced():
        _ref_step(P, ks, a, op)


def _ref_step(P, ks, a, op):
    cl = h_step.classes(dict(P, impl='c'))
    kind = P['kind']
    is_set = kind in ('TreeSet', 'Set')
    grp = P['group']
    keys_mod.reset()
    n = len(ks)
    kk = [K(k, i) for i, k in enumerate(ks)]
    vv = [K(1000 + i, None, 9) for i in range(n)]            # value objects (concrete payload)
    x = K(a['x'])
    y = K(a['y']) if 'y' in a else x
    vx = K(5000, None, 9)
    objs = kk + ([] if is_set else vv) + [x] + ([y] if y is not x else []) + [vx]
    ctx = {'harness': 'ref_step', 'kind': kind, 'group': grp, 'op': op}
    base = refs(objs)
    t = build(P, cl, kk, vv)
    s0 = slot_counts(t, objs, cl, kind)
    r0 = refs(objs)
    d0 = [r - b for r, b in zip(r0, base)]
    if d0 != s0:
        fail('a freshly built container does not hold exactly one reference per occupied slot', dict(ctx, phase='built'), d0, s0)
    # node reference counts only for read-only groups: holding the node objects would keep
    # unlinked leaves (and the keys in them) alive across a mutation
    readonly = grp in ('read', 'range', 'setop', 'state')
    nodes = node_list(t, cl, kind) if readonly else []
    nr0 = refs(nodes, collect=True)
    changed = do_op(t, P, cl, grp, op, x, y, vx, is_set, kk, vv)
    keys_mod._MEMO.clear()
    s1 = slot_counts(t, objs, cl, kind)
    r1 = refs(objs, collect=True)
    d1 = [r - b for r, b in zip(r1, base)]
    if d1 != s1:
        fail('after the call the references held differ from the occupied slots (delta %r, slots %r)' % (d1, s1), dict(ctx, phase='after'))
    if not changed:
        nr1 = refs(nodes)
        if nr1 != nr0:
            fail('a read-only call changed the reference count of a node (%r)' % ([p - q for p, q in zip(nr1, nr0)],), dict(ctx, phase='nodes'))
    del nodes
    del t
    keys_mod._MEMO.clear()
    r2 = refs(objs, collect=True)
    if r2 != base:
        fail('after destroying the container a key/value object is leaked or over-released (delta %r)' % ([p - q for p, q in zip(r2, base)],),
             dict(ctx, phase='destroyed'))
