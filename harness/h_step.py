"""One public operation from an arbitrary reachable pre-state (C01, C03).

P: family, impl, kind, tpl, L, I, group, prov ('loaded'|'grown'), hist, N,
   check ('model'|'sound'|'both')
ks: strictly increasing symbolic ints (one per rank of the template, or one
    per universe key for prov == 'grown')
a:  x, y (argument keys), op (selector inside the group), v (value),
    xnone (argument key is None), none0 (smallest stored key is None)
"""
from engine import shapes
from harness import common
from harness.common import Model, fail, keq, klt, same_keys, same_pairs
from harness import keys as keys_mod
from harness.keys import K, ranked

_CL = {}
VNEW = 7000          # value stored by writes (values are opaque objects for the OO family)


def classes(P):
    key = (P['family'], P['impl'], P.get('L'), P.get('I'))
    cl = _CL.get((P['family'], P['impl']))
    if cl is None:
        cl = shapes.classes(P['family'], P['impl'])
        _CL[(P['family'], P['impl'])] = cl
    if P.get('L'):
        shapes.set_sizes(cl, P['L'], P['I'])
    return cl


def val(r):
    return 100 + r


def prestate(P, ks, none0=False, kk=None):
    """-> (container, model, key objects).  kk: ready-made key objects for ks."""
    cl = classes(P)
    if kk is None:
        kk = [K(k) for k in ks]
    kind = P['kind']
    is_set = kind in ('TreeSet', 'Set')
    if kind in ('Bucket', 'Set'):
        n = P['n']
        kobj = list(kk[:n])
        if none0 and n:
            kobj[0] = None
        b = cl[kind]()
        if is_set:
            b.__setstate__((tuple(kobj),))
            m = Model([(k, None) for k in kobj])
        else:
            st = []
            for i, k in enumerate(kobj):
                st.extend((k, val(i)))
            b.__setstate__((tuple(st),))
            m = Model([(k, val(i)) for i, k in enumerate(kobj)])
        return b, m, kobj
    tpl = P['tpl']
    if P.get('prov') == 'grown':
        ukeys = list(kk)
        alive = set()
        for op, r in P['hist']:
            (alive.add if op == 'i' else alive.discard)(r)
        if none0 and alive:
            ukeys[min(alive)] = None
        t = shapes.build_grown(P['hist'], ukeys, cl, kind, val)
        m = Model([(ukeys[r], None if is_set else val(r)) for r in sorted(alive)])
        return t, m, ukeys
    kobj = list(kk)
    lk = sorted(set(shapes.leaf_keys(tpl)))
    if none0 and lk and lk[0] == 0:
        kobj[0] = None
    t = shapes.build_loaded(tpl, kobj, cl, kind, val)
    m = Model([(kobj[r], None if is_set else val(r)) for r in lk])
    return t, m, kobj


def contents(t, is_set):
    if is_set:
        return list(t.keys())
    return list(t.items())


def call(f, *a):
    """-> (result, exception class name or None)"""
    try:
        with keys_mod.live():
            return f(*a), None
    except Exception as e:      # noqa: any exception class is an observation compared with the model's
        return None, type(e).__name__


_D = object()


def map_op(t, m, group, op, kx, ky, v, is_tree):
    """perform one operation on the container and on the model.
    -> (got, got_exc, want, want_exc, loose) ; loose: compare truthiness only"""
    loose = False
    if group == 'write':
        if op == 0:
            got, ge = call(t.__setitem__, kx, v)
            m.set(kx, v)
            want, we = None, None
        elif op == 1:
            got, ge = call(t.setdefault, kx, v)
            if m.has(kx):
                want = m.get(kx)
            else:
                m.set(kx, v)
                want = v
            we = None
        else:
            if is_tree:
                got, ge = call(t.insert, kx, v)
                want, we = (0 if m.has(kx) else 1), None
                if not m.has(kx):
                    m.set(kx, v)
            else:
                got, ge = call(t.update, [(kx, v)])
                m.set(kx, v)
                want, we = None, None
                got = None
    elif group == 'del':
        if op == 0:
            got, ge = call(t.__delitem__, kx)
            want, we = (None, None) if m.delete(kx) else (None, 'KeyError')
        elif op == 1:
            got, ge = call(t.pop, kx)
            if m.has(kx):
                want, we = m.get(kx), None
                m.delete(kx)
            else:
                want, we = None, 'KeyError'
        elif op == 2:
            got, ge = call(t.pop, kx, _D)
            if m.has(kx):
                want, we = m.get(kx), None
                m.delete(kx)
            else:
                want, we = _D, None
        else:
            got, ge = call(t.popitem)
            if len(m):
                k0, v0 = m.pairs()[0]
                m.delete(k0)
                want, we = (k0, v0), None
                if ge is None and not (isinstance(got, tuple) and len(got) == 2 and keq(got[0], k0) and got[1] == v0):
                    return 'bad', ge, want, we, loose
                got = want
            else:
                want, we = None, 'KeyError'
    elif group == 'read':
        if op == 0:
            got, ge = call(t.get, kx)
            want, we = m.get(kx, None), None
        elif op == 1:
            got, ge = call(t.get, kx, _D)
            want, we = m.get(kx, _D), None
        elif op == 2:
            got, ge = call(t.__getitem__, kx)
            want, we = (m.get(kx), None) if m.has(kx) else (None, 'KeyError')
        elif op == 3:
            got, ge = call(t.__contains__, kx)
            want, we = m.has(kx), None
        elif op == 4:
            got, ge = call(t.has_key, kx)
            want, we = m.has(kx), None
            loose = True
        elif op == 5:
            got, ge = call(len, t)
            want, we = len(m), None
        elif op == 6:
            got, ge = bool(t), None
            want, we = len(m) > 0, None
        elif op == 7:
            got, ge = same_keys(list(t), m.keys()), None
            want, we = True, None
        elif op == 8:
            got, ge = same_keys(list(t.keys()), m.keys()) and list(t.values()) == m.values(), None
            want, we = True, None
        else:
            got, ge = same_keys(list(iter(t.iterkeys())), m.keys()) and \
                same_pairs(list(t.iteritems()), m.pairs()) and list(t.itervalues()) == m.values(), None
            want, we = True, None
    else:  # bulk
        if op == 0:
            got, ge = call(t.update, [(kx, v), (ky, v + 1)])
            m.set(kx, v)
            m.set(ky, v + 1)
            got, want, we = None, None, None
        elif op == 1:
            got, ge = call(t.update, {kx: v})
            m.set(kx, v)
            got, want, we = None, None, None
        else:
            got, ge = call(t.clear)
            m.items = []
            want, we = None, None
    return got, ge, want, we, loose


NOPS = {('map', 'write'): 3, ('map', 'del'): 4, ('map', 'read'): 10, ('map', 'bulk'): 3,
        ('set', 'write'): 3, ('set', 'del'): 3, ('set', 'read'): 7, ('set', 'inplace'): 4}


def set_op(t, m, group, op, kx, ky, one=False):
    loose = False
    if group == 'write':
        if op == 0:
            got, ge = call(t.add, kx)
            want, we = (0 if m.has(kx) else 1), None
            m.set(kx, None)
        elif op == 1:
            got, ge = call(t.insert, kx)
            want, we = (0 if m.has(kx) else 1), None
            m.set(kx, None)
        else:
            got, ge = call(t.update, [kx, ky])
            # C returns the number of keys added, Python returns None (undocumented): not compared
            got, want, we = None, None, None
            m.set(kx, None)
            m.set(ky, None)
    elif group == 'del':
        if op == 0:
            got, ge = call(t.remove, kx)
            want, we = (None, None) if m.delete(kx) else (None, 'KeyError')
        elif op == 1:
            got, ge = call(t.discard, kx)
            m.delete(kx)
            want, we = None, None
        else:
            got, ge = call(t.pop)
            if len(m):
                k0 = m.keys()[0]
                m.delete(k0)
                want, we = True, None
                if ge is None:
                    got = keq(got, k0)
            else:
                want, we = None, 'KeyError'
    elif group == 'read':
        if op == 0:
            got, ge = call(t.__contains__, kx)
            want, we = m.has(kx), None
        elif op == 1:
            got, ge = call(t.has_key, kx)
            want, we = m.has(kx), None
            loose = True
        elif op == 2:
            got, ge = call(len, t)
            want, we = len(m), None
        elif op == 3:
            got, ge = bool(t), None
            want, we = len(m) > 0, None
        elif op == 4:
            got, ge = same_keys(list(t), m.keys()), None
            want, we = True, None
        elif op == 5:
            got, ge = same_keys(list(t.keys()), m.keys()) and same_keys(list(iter(t)), m.keys()), None
            want, we = True, None
        else:
            got, ge = call(t.isdisjoint, [kx] if one else [kx, ky])
            want, we = not (m.has(kx) or (not one and m.has(ky))), None
    else:  # inplace operators with a 2-element plain list operand
        # an operand with a duplicated key is C10's subject (known finding there:
        # ^= toggles once per occurrence); C01 drives ^= with distinct operand keys
        other = [kx] if ((op == 3 and keq(kx, ky)) or one) else [kx, ky]
        if one:
            ky = kx
        # the model is advanced first, so that it holds the completed change even
        # when the real call is interrupted by an exception (C14, C17)
        if op == 0:
            m.set(kx, None)
            m.set(ky, None)
        elif op == 1:
            m.items = [i for i in m.items if keq(i[0], kx) or keq(i[0], ky)]
        elif op == 2:
            m.delete(kx)
            m.delete(ky)
        else:
            for k in ([kx] if keq(kx, ky) else [kx, ky]):
                if not m.delete(k):
                    m.set(k, None)
        with keys_mod.live():
            if op == 0:
                t |= other
            elif op == 1:
                t &= other
            elif op == 2:
                t -= other
            else:
                t ^= other
        got = ge = want = we = None
    return got, ge, want, we, loose


def sound(t, P, cl, what_prefix, ctx):
    """C03 assertions: both package checkers and the independent walker."""
    kind = P['kind']
    if kind not in ('BTree', 'TreeSet'):
        return None
    try:
        t._check()
    except AssertionError:
        fail(what_prefix + ': _check() rejects the container', ctx)
    except Exception as e:      # noqa
        fail(what_prefix + ': _check() raised ' + type(e).__name__, ctx)
    from BTrees.check import check as bt_check
    try:
        bt_check(t)
    except AssertionError:
        fail(what_prefix + ': BTrees.check.check() rejects the container', ctx)
    except Exception as e:      # noqa
        fail(what_prefix + ': BTrees.check.check() raised ' + type(e).__name__, ctx)
    try:
        return shapes.walk(t, cl, kind, P.get('L'), P.get('I'), lt=klt, check_sizes=True)
    except shapes.Unsound as e:
        fail(what_prefix + ': independent walk: ' + str(e.args[0]), ctx)
    except Exception as e:      # noqa
        fail(what_prefix + ': walking the public state raised ' + type(e).__name__, ctx)


def step(P, ks, a):
    # traced prologue: turn selectors / flags into concrete values (one path per
    # feasible value, enumerated by the solver); key payloads stay symbolic
    kind = P['kind']
    is_set = kind in ('TreeSet', 'Set')
    nops = NOPS[('set' if is_set else 'map', P['group'])]
    op = common.choose(a['op'], nops) if 'op' in a else 0
    none0 = common.flag(a['none0']) if 'none0' in a else False
    xnone = common.flag(a['xnone']) if 'xnone' in a else False
    with common.untraced():
        _step(P, ks, a, op, none0, xnone)


def _step(P, ks, a, op, none0, xnone):
    cl = classes(P)
    kind = P['kind']
    is_set = kind in ('TreeSet', 'Set')
    is_tree = kind in ('BTree', 'TreeSet')
    keys_mod.reset()
    if P.get('ranked'):
        with common.traced():
            kk, ex = ranked(ks, [a['x']] + ([a['y']] if 'y' in a else []))
    else:
        kk, ex = [K(k, i) for i, k in enumerate(ks)], [K(a['x'])] + ([K(a['y'])] if 'y' in a else [])
    t, m, kobj = prestate(P, ks, none0, kk)
    ctx = {'harness': 'step', 'impl': P['impl'], 'kind': kind, 'group': P['group'], 'op': op}
    chk = P.get('check', 'both')
    if chk in ('sound', 'both') and is_tree:
        # induction hypothesis: the pre-state is sound (harness sanity, not a finding)
        try:
            shapes.walk(t, cl, kind, P.get('L'), P.get('I'), lt=klt, check_sizes=False)
        except shapes.Unsound as e:
            if P.get('prov') == 'grown':
                # the pre-state was produced by the public API (re-keyed witness history)
                fail('a history of public calls produced an unsound tree: ' + str(e.args[0]), ctx)
                return
            raise RuntimeError('pre-state unsound: %s' % (e.args[0],))
    kx = None if xnone else ex[0]
    ky = ex[1] if 'y' in a else kx
    v = VNEW
    if is_set:
        got, ge, want, we, loose = set_op(t, m, P['group'], op, kx, ky, 'y' not in a)
    else:
        got, ge, want, we, loose = map_op(t, m, P['group'], op, kx, ky, v, kind == 'BTree')
    if ge not in (None, 'KeyError', 'TypeError', 'ValueError', 'IndexError'):
        fail('a public call raised an exception class outside its interface: %s' % ge, ctx)
    if chk in ('model', 'both'):
        if ge != we:
            fail('exception class differs from the sorted-map model', ctx, ge, we)
        if ge is None:
            if loose:
                ok = bool(got) == bool(want)
            else:
                ok = got is want or got == want
            if not ok:
                fail('return value differs from the sorted-map model', ctx, common.show(got), common.show(want))
        c = contents(t, is_set)
        if is_set:
            if not same_keys(c, m.keys()):
                fail('ordered contents differ from the model', ctx, common.show(c), common.show(m.keys()))
        elif not same_pairs(c, m.pairs()):
            fail('ordered contents differ from the model', ctx, common.show(c), common.show(m.pairs()))
        if len(t) != len(m):
            fail('len() differs from the model', ctx)
    if chk in ('sound', 'both') and is_tree:
        ents = sound(t, P, cl, 'after the operation', ctx)
        if ents is not None:
            ek = ents if is_set else [e[0] for e in ents]
            if not same_keys(ek, m.keys()):
                fail('entries on the leaf chain differ from the contents implied by the call', ctx)


def from_empty(P, ks, a):
    """k symbolic operations from the empty container (no catalogue involved)."""
    ds = [common.flag(a['d%d' % i]) for i in range(P['k'])]
    with common.untraced():
        _from_empty(P, ks, a, ds)


def _from_empty(P, ks, a, ds):
    cl = classes(P)
    kind = P['kind']
    is_set = kind in ('TreeSet', 'Set')
    t = cl[kind]()
    m = Model()
    keys_mod.reset()
    ctx = {'harness': 'from_empty', 'impl': P['impl'], 'kind': kind}
    if P.get('ranked'):
        xs = ranked([], [a['x%d' % i] for i in range(P['k'])])[1]
    else:
        xs = [K(a['x%d' % i]) for i in range(P['k'])]
    for i in range(P['k']):
        kx = xs[i]
        if ds[i]:
            if is_set:
                got, ge = call(t.remove, kx)
            else:
                got, ge = call(t.__delitem__, kx)
            we = None if m.delete(kx) else 'KeyError'
        else:
            if is_set:
                got, ge = call(t.add, kx)
            else:
                got, ge = call(t.__setitem__, kx, i)
            m.set(kx, None if is_set else i)
            we = None
        if ge != we:
            fail('exception class differs from the sorted-map model', ctx)
    c = contents(t, is_set)
    if is_set:
        if not same_keys(c, m.keys()):
            fail('ordered contents differ from the model', ctx, common.show(c), common.show(m.keys()))
    elif not same_pairs(c, m.pairs()):
        fail('ordered contents differ from the model', ctx, common.show(c), common.show(m.pairs()))
    if kind in ('BTree', 'TreeSet'):
        P2 = dict(P, prov='grown')
        sound(t, P2, cl, 'after k operations from empty', ctx)


def history(P, ks, a):
    """Re-keyed concrete history (from the catalogue search) replayed through the
    public API with strictly ordered symbolic keys, then the full oracle: model
    contents, both checkers, independent walker."""
    with common.untraced():
        _history(P, ks, a)


def _history(P, ks, a):
    cl = classes(P)
    kind = P['kind']
    is_set = kind in ('TreeSet', 'Set')
    keys_mod.reset()
    kk = [K(k, i) for i, k in enumerate(ks)]
    ctx = {'harness': 'history', 'impl': P['impl'], 'kind': kind}
    t = cl[kind]()
    m = Model()
    for op, r in P['hist']:
        try:
            if op == 'i':
                if is_set:
                    t.add(kk[r])
                else:
                    t[kk[r]] = val(r)
                m.set(kk[r], None if is_set else val(r))
            else:
                if is_set:
                    t.remove(kk[r])
                else:
                    del t[kk[r]]
                m.delete(kk[r])
        except Exception as e:      # noqa
            fail('a public call raised %s during an insert/delete history' % type(e).__name__, ctx)
            return
    try:
        c = contents(t, is_set)
    except Exception as e:          # noqa
        fail('reading the contents raised %s after an insert/delete history' % type(e).__name__, ctx)
        return
    if not (same_keys(c, m.keys()) if is_set else same_pairs(c, m.pairs())):
        fail('ordered contents differ from the model after an insert/delete history', ctx, common.show(c), common.show(m.pairs()))
    if len(t) != len(m):
        fail('len() differs from the model after an insert/delete history', ctx)
    for k in m.keys():
        if k not in t:
            fail('a stored key is not found by lookup after an insert/delete history', ctx)
    try:
        sound(t, dict(P, prov='grown'), cl, 'after an insert/delete history', ctx)
    except shapes.Unsound:
        raise
    except common.Fail:
        raise
    except Exception as e:          # noqa
        fail('walking the tree raised %s after an insert/delete history' % type(e).__name__, ctx)


def catalogue_crash(P, ks, a):
    """replay of 'the catalogue search kills the interpreter': the same breadth-first run of concrete insert/delete
    histories (public API only, keys 0..N-1, node sizes L/I) in a fresh interpreter.  Returning normally = not reproduced;
    the process dying is the reproduction (the runner sees the exit status)."""
    import os
    os.environ.pop('VERIF_HISTLOG', None)
    os.environ.pop('VERIF_SKIP_HIST', None)
    cl = shapes.classes(P.get('family', 'OO'), 'c')
    shapes.set_sizes(cl, P['L'], P['I'])
    shapes.catalogue(cl, P['kind'], P['N'], sizes=(P['L'], P['I']))
