"""Key class whose ordering is decided by the solver.

`K(v)` wraps a CrossHair symbolic int (or a concrete int on replay).  Both the
compiled extension (through PyObject_RichCompareBool -> PyObject_IsTrue ->
SymbolicBool.__bool__) and the Python implementation observe a key only
through these comparison methods, so every comparison outcome the real code
branches on is a solver decision.  `__hash__` is constant so that CPython's
set/dict (used by the C `^` operator) fall back on `__eq__` instead of
realising the value.

CTL drives the fault / schedule instrumentation used by C05, C14, C15:
  CTL['n']     comparisons performed since the last reset
  CTL['fail']  raise CmpError when n reaches this value (-1: never)
  CTL['hook']  (index, callable): call once when n reaches index
"""


from harness import common as _common


class CmpError(Exception):
    pass


# ---------------------------------------------------------------------------
# decision journal: every solver decision of the current path is appended to a
# file (O_APPEND, unbuffered) BEFORE the code under test continues.  If the
# code under test kills the interpreter on some solver-chosen path, the runner
# solves the journal for concrete arguments and replays them natively.

import json as _json
import os as _os

NAMES = {}
_JFD = None


def _jfd():
    global _JFD
    if _JFD is None:
        p = _os.environ.get('VERIF_JOURNAL')
        _JFD = _os.open(p, _os.O_WRONLY | _os.O_APPEND | _os.O_CREAT, 0o644) if p else -1
    return _JFD


def jlog(*rec):
    fd = _jfd()
    if fd >= 0:
        _os.write(fd, (_json.dumps(rec) + '\n').encode())


def begin_path(ob_id, named):
    """called by the generated obligation module at the start of every path"""
    with _common.untraced():
        NAMES.clear()
        if _jfd() < 0:
            return
        for n, v in named.items():
            NAMES[id(v)] = n
        jlog('PATH', ob_id)


def name_of(v):
    return NAMES.get(id(v))


# the same fault raised as a subclass of the exception classes the library itself catches internally (a comparison
# that raises ValueError / KeyError / TypeError must reach the caller like any other)
FAULTS = [CmpError] + [type('CmpError', (CmpError, b), {}) for b in (ValueError, KeyError, TypeError)]

CTL = {'failcls': CmpError, 'n': 0, 'fail': -1, 'hook': None, 'serial': 0, 'live': False, 'failsym': None, 'failed_at': 0, 'hooksym': None, 'hookfn': None, 'hooked_at': 0}


def reset(fail=-1, hook=None):
    _MEMO.clear()
    CTL['serial'] = 0
    CTL['n'] = 0
    CTL['fail'] = fail
    CTL['hook'] = hook
    CTL['failsym'] = None
    CTL['failed_at'] = 0
    CTL['live'] = False
    CTL['hooksym'] = None
    CTL['hookfn'] = None
    CTL['hooked_at'] = 0


def reset_counter(fail=-1, hook=None):
    """restart comparison counting without forgetting decisions already taken on this path"""
    CTL['n'] = 0
    CTL['fail'] = fail
    CTL['hook'] = hook
    CTL['failsym'] = None
    CTL['failed_at'] = 0
    CTL['hooksym'] = None
    CTL['hookfn'] = None
    CTL['hooked_at'] = 0


class live:
    """comparisons are counted (and faults / hooks fire) only while the code
    under test runs, never inside the reference model or the oracle"""
    def __enter__(self):
        self.prev = CTL['live']
        CTL['live'] = True

    def __exit__(self, *a):
        CTL['live'] = self.prev
        return False


def _tick():
    if not CTL['live']:
        return
    CTL['n'] += 1
    n = CTL['n']
    if n == CTL['fail']:
        raise CmpError(n)
    hs = CTL['hooksym']
    if hs is not None:
        # symbolic schedule point: "does the environment act during THIS comparison?"
        with _common.traced():
            hit = True if hs == n else False
        if NAMES:
            jlog('idx', name_of(hs), n, hit)
        if hit:
            CTL['hooksym'] = None
            CTL['hooked_at'] = n
            CTL['hookfn']()
    fs = CTL['failsym']
    if fs is not None:
        # symbolic fault index: "does the fault strike at THIS comparison?" is a
        # solver decision, so only indices the operation really reaches fork
        with _common.traced():
            hit = True if fs == n else False
        if NAMES:
            jlog('idx', name_of(fs), n, hit)
        if hit:
            CTL['failsym'] = None
            CTL['failed_at'] = n
            raise CTL['failcls'](n)
    h = CTL['hook']
    if h is not None and n == h[0]:
        CTL['hook'] = None
        h[1]()


_MEMO = {}
_SWAP = {'lt': 'gt', 'gt': 'lt', 'eq': 'eq'}


def _decide(a, b, which):
    """Outcome of `a <which> b`, decided at most once per pair and path.

    Pure optimisation: inside one path the path condition fixes the outcome of
    a repeated comparison of the same two payloads, and `lt/eq/gt` of one pair
    are mutually exclusive and exhaustive (payloads are integers), so asking
    the solver again could only return the same answer."""
    if a is b:
        return which == 'eq'
    if a.r is not None and b.r is not None and a.g == b.g:
        # both keys come from the same strictly ordered list: the
        # precondition k0 < k1 < ... already implies the outcome
        return (a.r < b.r) if which == 'lt' else (a.r > b.r) if which == 'gt' else (a.r == b.r)
    if a.s > b.s:
        a, b = b, a
        which = _SWAP[which]
    ent = _MEMO.get((a.s, b.s))
    if ent is None:
        ent = _MEMO[(a.s, b.s)] = (a, b, {})
    st = ent[2]
    if which in st:
        return st[which]
    if len(st) == 2:            # two known False -> the third is True
        res = True
    else:
        with _common.traced():  # the only place where symbolic payloads are touched
            if which == 'lt':
                res = bool(a.v < b.v)
            elif which == 'gt':
                res = bool(a.v > b.v)
            else:
                res = bool(a.v == b.v)
        if NAMES:
            jlog('cmp', name_of(a.v), which, name_of(b.v), res)
    st[which] = res
    if res:
        for w in ('lt', 'eq', 'gt'):
            st.setdefault(w, False)
    return res


class K:
    """v: payload (symbolic int); r: optional concrete rank among the keys of
    the pre-state (which are strictly ordered by the obligation's precondition)."""
    __slots__ = ('v', 'r', 's', 'g')

    def __init__(self, v, r=None, g=0):
        self.v = v
        self.r = r
        self.g = g                  # group: ranks are comparable inside one group only
        CTL['serial'] += 1
        self.s = CTL['serial']      # deterministic creation order (memo orientation)

    def __lt__(self, o):
        if not isinstance(o, K):
            return NotImplemented
        _tick()
        return _decide(self, o, 'lt')

    def __gt__(self, o):
        if not isinstance(o, K):
            return NotImplemented
        _tick()
        return _decide(self, o, 'gt')

    def __le__(self, o):
        if not isinstance(o, K):
            return NotImplemented
        _tick()
        return not _decide(self, o, 'gt')

    def __ge__(self, o):
        if not isinstance(o, K):
            return NotImplemented
        _tick()
        return not _decide(self, o, 'lt')

    def __eq__(self, o):
        if not isinstance(o, K):
            return NotImplemented
        _tick()
        return _decide(self, o, 'eq')

    def __ne__(self, o):
        if not isinstance(o, K):
            return NotImplemented
        _tick()
        return not _decide(self, o, 'eq')

    def __hash__(self):
        return 0

    def __repr__(self):
        if _common.SYMBOLIC:
            return 'K(?)'           # never format a symbolic payload
        return 'K(%r)' % (self.v,)


def kv(k):
    """payload of a key for reporting / model comparison (None stays None)."""
    return None if k is None else k.v


def ranked(ks, extras=()):
    """Order-class splitting.  `ks` are strictly increasing symbolic ints (by
    precondition), `extras` arbitrary symbolic ints.  Each extra is located
    among the already placed values by binary search on the SYMBOLIC values, so
    the solver decides (and CrossHair forks on) exactly the feasible total
    preorders of all values; afterwards every key carries a concrete rank and
    the code under test branches on rank comparisons.  The enumeration of order
    classes is therefore the solver's; the payloads stay symbolic, so a failing
    path still yields a concrete model of the whole path condition.
    -> (list of K for ks, list of K for extras)"""
    from fractions import Fraction
    placed = [(Fraction(2 * i), k) for i, k in enumerate(ks)]
    kk = [K(k, r) for r, k in placed]
    out = []
    for e in extras:
        lo, hi = 0, len(placed)
        rank = None
        while lo < hi:
            mid = (lo + hi) // 2
            if e == placed[mid][1]:
                rank = placed[mid][0]
                break
            if e < placed[mid][1]:
                hi = mid
            else:
                lo = mid + 1
        if rank is None:
            below = placed[lo - 1][0] if lo > 0 else (placed[0][0] - 2 if placed else Fraction(0))
            above = placed[lo][0] if lo < len(placed) else (placed[-1][0] + 2 if placed else Fraction(2))
            rank = (below + above) / 2
            placed.insert(lo, (rank, e))
        out.append(K(e, rank))
    return kk, out


class PV(K):
    """a VALUE object that is only partially ordered: equality is decided by the solver, but no two values are ever
    less or greater than one another (like frozensets that are not subsets of each other, or NaN)"""

    def __lt__(self, o):
        return False if isinstance(o, K) else NotImplemented

    def __gt__(self, o):
        return False if isinstance(o, K) else NotImplemented

    def __le__(self, o):
        return K.__eq__(self, o)

    def __ge__(self, o):
        return K.__eq__(self, o)
