"""Shared pieces of the harnesses: failure protocol, hash-free reference
models (lists + ==/< only, so symbolic payloads are never realised), known
findings."""
import json
import os

CONCRETE = False          # set by the replay engine: detailed messages allowed
KNOWN_HITS = []           # ids of known findings matched on the current path


class Fail(Exception):
    """The property is violated on this path."""


_KF = None


def _known():
    global _KF
    if _KF is None:
        p = os.environ.get('VERIF_KNOWN_FINDINGS')
        _KF = []
        if p and os.path.exists(p):
            _KF = [f for f in json.load(open(p)).get('findings', []) if f.get('status') == 'open']
    return _KF


def fail(what, ctx=None, *detail):
    """Report a violation unless it lies inside the `where` region of an open
    known finding for this harness (committed file, never written at run time)."""
    ctx = ctx or {}
    if not os.environ.get('VERIF_IGNORE_KNOWN'):
        for f in _known():
            if f.get('harness') and f['harness'] != ctx.get('harness'):
                continue
            try:
                hit = eval(f['where'], {'__builtins__': {'len': len, 'any': any, 'all': all, 'min': min, 'max': max}}, dict(ctx, what=what))
            except Exception:
                hit = False
            if hit:
                KNOWN_HITS.append(f['id'])
                return
    if CONCRETE:
        raise Fail(what, *detail)
    raise Fail(what)


# ---------------------------------------------------------------------------
# key ordering with None as the smallest key

def klt(a, b):
    if a is None:
        return b is not None
    if b is None:
        return False
    return a < b


def keq(a, b):
    if a is None or b is None:
        return a is b
    return a == b


class Model:
    """Sorted map as a list of [key, value] pairs; set = values ignored."""

    def __init__(self, items=()):
        self.items = [list(i) for i in items]

    def copy(self):
        return Model(self.items)

    def find(self, k):
        for i in range(len(self.items)):
            if keq(self.items[i][0], k):
                return i
        return -1

    def pos(self, k):
        i = 0
        while i < len(self.items) and klt(self.items[i][0], k):
            i += 1
        return i

    def set(self, k, v):
        i = self.find(k)
        if i >= 0:
            self.items[i][1] = v
            return False
        self.items.insert(self.pos(k), [k, v])
        return True

    def delete(self, k):
        i = self.find(k)
        if i < 0:
            return False
        del self.items[i]
        return True

    def get(self, k, d=None):
        i = self.find(k)
        return d if i < 0 else self.items[i][1]

    def has(self, k):
        return self.find(k) >= 0

    def keys(self):
        return [i[0] for i in self.items]

    def values(self):
        return [i[1] for i in self.items]

    def pairs(self):
        return [(i[0], i[1]) for i in self.items]

    def __len__(self):
        return len(self.items)


def _identical(got, want, pairs):
    with untraced():
        if len(got) != len(want):
            return False
        if pairs:
            return all(isinstance(g, tuple) and len(g) == 2 and g[0] is w[0] and g[1] is w[1] for g, w in zip(got, want))
        return all(g is w for g, w in zip(got, want))


def same_keys(got, want):
    """ordered key lists equal (None-aware, == only)."""
    if _identical(got, want, False):
        return True
    if len(got) != len(want):
        return False
    for a, b in zip(got, want):
        if not keq(a, b):
            return False
    return True


def same_pairs(got, want):
    if _identical(got, want, True):
        return True
    if len(got) != len(want):
        return False
    for (a, x), (b, y) in zip(got, want):
        if not keq(a, b):
            return False
        if not (x is y or x == y):
            return False
    return True


def show(x):
    """concrete rendering for replay reports (symbolic payloads are never
    formatted: that would be an operation on a symbol outside tracing)."""
    if not CONCRETE:
        return None
    from harness.keys import K
    if isinstance(x, K):
        return 'K(%r)' % (x.v,)
    if isinstance(x, (list, tuple)):
        return type(x)(show(i) for i in x)
    return x


class _Null:
    def __enter__(self):
        return self

    def __exit__(self, *a):
        return False


SYMBOLIC = False          # set by the worker while CrossHair drives the harness


def untraced():
    """Suspend CrossHair's opcode tracing.  The body then runs at native speed;
    every operation on a symbolic payload re-enters tracing through `traced()`
    (harness.keys._decide), so all solver decisions are still taken by CrossHair.
    Concrete Python code (the harness, the model, and the pure-Python BTrees
    implementation, which touches keys only through their comparison methods)
    does not need opcode interception.  No-op on replay."""
    if not SYMBOLIC:
        return _Null()
    from crosshair.tracers import NoTracing, is_tracing
    if is_tracing():
        return NoTracing()
    return _Null()


def traced():
    if not SYMBOLIC:
        return _Null()
    from crosshair.tracers import ResumedTracing, is_tracing
    if not is_tracing():
        return ResumedTracing()
    return _Null()


def choose(sym, n):
    """concrete value of a symbolic selector in range(n): the solver enumerates
    the feasible values, one path each (call while tracing)."""
    r = n - 1
    for i in range(n - 1):
        if sym == i:
            r = i
            break
    _journal('sel', sym, r)
    return r


def flag(b):
    r = True if b else False
    _journal('sel', b, r)
    return r


def _journal(kind, sym, val):
    if SYMBOLIC:
        from harness import keys as _k
        if _k.NAMES:
            from crosshair.tracers import NoTracing
            with NoTracing():
                nm = _k.name_of(sym)
            if nm is not None:
                _k.jlog(kind, nm, val)


def peek(x):
    """One concrete model value of a symbolic int under the current path
    condition WITHOUT constraining the path (unlike crosshair's realize(), which
    adds `x == value` and makes the search enumerate all other values).  Used to
    build a per-path concrete witness for code that cannot run on symbols
    (pickle).  Identity on concrete values."""
    if not SYMBOLIC:
        return x
    from crosshair.statespace import context_statespace, model_value_to_python
    from crosshair.tracers import NoTracing
    import z3
    with NoTracing():       # type() of a proxy is only visible with tracing off
        if type(x) is int:
            return x
        var = getattr(x, 'var', None)
        if var is None:
            return x
        space = context_statespace()
        if str(space.solver.check()) != 'sat':
            raise RuntimeError('peek: path condition not satisfiable')
        val = space.solver.model().eval(var, model_completion=True)
        if z3.is_int_value(val):
            return val.as_long()
        return model_value_to_python(val)
