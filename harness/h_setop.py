"""C10: union / intersection / difference, operators and in-place forms.

P: impl, ka, kb (operand kinds: Set TreeSet Bucket BTree list iter None), na, nb
a: a0.., b0..  key payloads; container operands are built from strictly
   increasing payloads (precondition), list/iterator operands from unordered
   payloads (so duplicates and every permutation are solver-chosen models)
"""
import operator

from engine import shapes
from harness import common
from harness.common import fail, keq, klt
from harness import keys as keys_mod
from harness.keys import K

_CL = {}
SETS = ('Set', 'TreeSet')
MAPS = ('Bucket', 'BTree')
CONT = SETS + MAPS


def classes(impl):
    if impl not in _CL:
        cl = shapes.classes('OO', impl)
        shapes.set_sizes(cl, 2, 2)
        _CL[impl] = cl
    return _CL[impl]


def build(cl, kind, keys, base):
    if kind == 'None':
        return None
    if kind == 'list':
        return list(keys)
    if kind == 'iter':
        return iter(list(keys))
    if kind in SETS:
        return cl[kind](keys)
    return cl[kind]([(k, base + i) for i, k in enumerate(keys)])


def snapshot(kind, x):
    if kind in ('None', 'iter'):
        return None
    if kind == 'list':
        return list(x)
    if kind in SETS:
        return list(x.keys())
    return list(x.items())


def unchanged(kind, x, snap):
    if snap is None:
        return True
    now = snapshot(kind, x)
    if len(now) != len(snap):
        return False
    if kind in MAPS:
        return all(p[0] is q[0] and p[1] == q[1] for p, q in zip(now, snap))
    return all(p is q for p, q in zip(now, snap))


def uniq(keys):
    out = []
    for k in keys:
        if not any(keq(k, q) for q in out):
            out.append(k)
    return out


def ssort(keys):
    res = []
    for k in keys:
        i = 0
        while i < len(res) and klt(res[i], k):
            i += 1
        res.insert(i, k)
    return res


def has(keys, k):
    return any(keq(k, q) for q in keys)


def m_union(A, B):
    return ssort(uniq(list(A) + list(B)))


def m_inter(A, B):
    return ssort([k for k in uniq(A) if has(B, k)])


def m_diff(A, B):
    return ssort([k for k in uniq(A) if not has(B, k)])


def m_xor(A, B):
    return ssort([k for k in uniq(A) if not has(B, k)] + [k for k in uniq(B) if not has(A, k)])


def same_keys(got, want):
    return len(got) == len(want) and all(keq(x, y) for x, y in zip(got, want))


def setop_case(P, ks, a):
    an = common.flag(a['an']) if 'an' in a else False
    bn = common.flag(a['bn']) if 'bn' in a else False
    with common.untraced():
        _setop_case(P, a, an, bn)


def _setop_case(P, a, an=False, bn=False):
    impl, ka, kb, na, nb = P['impl'], P['ka'], P['kb'], P['na'], P['nb']
    cl = classes(impl)
    mod = cl['module']
    sfx = cl['sfx']
    keys_mod.reset()
    # container operands: ordered group (ranks decide); list/iter operands: unordered
    ak = [K(a['a%d' % i], i if ka in CONT else None, 1) for i in range(na)]
    bk = [K(a['b%d' % i], i if kb in CONT else None, 2) for i in range(nb)]
    ctx = {'harness': 'setop_case', 'impl': impl, 'ka': ka, 'kb': kb, 'na': na, 'nb': nb}
    # None, the smallest object key, as the first key of a container operand
    if an and ak:
        ak[0] = None
    if bn and bk:
        bk[0] = None
    ctx.update(an=an, bn=bn)
    A, B = uniq(ak), uniq(bk)
    SetT, BucketT = cl['Set'], cl['Bucket']

    def fresh():
        x, y = build(cl, ka, ak, 100), build(cl, kb, bk, 200)
        return x, y, snapshot(ka, x), snapshot(kb, y)

    def check_result(name, r, want, x, y, want_type, c, values_from=None):
        if type(r) is not want_type:
            fail('%s: result is not of the documented kind' % name, c, type(r).__name__)
            return
        if r is x or r is y:
            fail('%s: result is not a new container' % name, c)
        got = list(r.keys())
        if not same_keys(got, want):
            fail('%s: keys differ from the mathematical result' % name, c, common.show(got), common.show(want))
        for p, q in zip(got, got[1:]):
            if not klt(p, q):
                fail('%s: result is not strictly ascending (duplicate or unsorted keys)' % name, c)
        if values_from is not None and want_type is BucketT:
            for k, v in r.items():
                i = [j for j, q in enumerate(ak) if q is k or keq(q, k)]
                if not i or v != 100 + i[0]:
                    fail('%s: result does not keep the first operand\'s values' % name, c)

    # ---- module functions
    for name, model, none_rule in (('union', m_union, 'other'), ('intersection', m_inter, 'other'),
                                   ('difference', m_diff, 'diff')):
        if name == 'difference' and ka in ('list', 'iter'):
            continue                    # documented: c1 must be a BTrees container
        f = getattr(mod, name + sfx)
        x, y, sx, sy = fresh()
        c = dict(ctx, op=name)
        try:
            r = f(x, y)
        except Exception as e:          # noqa
            fail('%s raised %s' % (name, type(e).__name__), dict(c, exc=type(e).__name__))
            continue
        if x is None or y is None:
            if none_rule == 'other':
                want_obj = y if x is None else x
            else:
                want_obj = None if x is None else x
            if r is not want_obj:
                fail('%s: None operand rule violated' % name, c)
        else:
            is_map_result = name == 'difference' and ka in MAPS
            check_result(name, r, model(A, B), x, y, BucketT if is_map_result else SetT, c,
                         values_from=ak if is_map_result else None)
        if not unchanged(ka, x, sx) or not unchanged(kb, y, sy):
            fail('%s modified an operand' % name, c)

    # ---- binary operators (first operand a container)
    if ka in CONT and kb != 'None':
        for sym, op, model in (('|', operator.or_, m_union), ('&', operator.and_, m_inter), ('-', operator.sub, m_diff),
                               ('^', operator.xor, m_xor)):
            if sym == '^' and (ka not in SETS or kb == 'iter'):
                continue
            x, y, sx, sy = fresh()
            c = dict(ctx, op=sym)
            try:
                r = op(x, y)
            except Exception as e:      # noqa
                fail('operator %s raised %s' % (sym, type(e).__name__), dict(c, exc=type(e).__name__))
                continue
            want = model(A, B)
            if sym == '^':
                got = list(r.keys())
                if not same_keys(got, want):
                    fail('operator ^: keys differ from the symmetric difference', c, common.show(got), common.show(want))
                if r is x or r is y:
                    fail('operator ^: result is not a new container', c)
            else:
                is_map_result = sym == '-' and ka in MAPS
                check_result('operator ' + sym, r, want, x, y, BucketT if is_map_result else SetT, c,
                             values_from=ak if is_map_result else None)
            if not unchanged(ka, x, sx) or not unchanged(kb, y, sy):
                fail('operator %s modified an operand' % sym, c)

    # ---- in-place forms (target a Set/TreeSet)
    if ka in SETS and kb != 'None':
        for sym, op, model in (('|=', operator.ior, m_union), ('&=', operator.iand, m_inter), ('-=', operator.isub, m_diff),
                               ('^=', operator.ixor, m_xor)):
            x, y, sx, sy = fresh()
            c = dict(ctx, op=sym)
            try:
                r = op(x, y)
            except Exception as e:      # noqa
                fail('operator %s raised %s' % (sym, type(e).__name__), dict(c, exc=type(e).__name__))
                continue
            if r is not x:
                fail('in-place operator %s does not return its target' % sym, c)
            got = list(x.keys())
            want = model(A, B)
            if not same_keys(got, want):
                fail('in-place operator %s: contents differ from the mathematical result' % sym, dict(c, dup=len(B) != len(bk)),
                     common.show(got), common.show(want))
            if not unchanged(kb, y, sy):
                fail('in-place operator %s modified its other operand' % sym, c)
            if ka == 'TreeSet':
                try:
                    x._check()
                except Exception as e:  # noqa
                    fail('in-place operator %s left the TreeSet unsound (%s)' % (sym, type(e).__name__), c)
