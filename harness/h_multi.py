"""C11: multiunion is the exact sorted union for every integer-key family.

py_multi   pure-Python multiunion on UNBOUNDED-range symbolic integers inside the
           family range (both extremes reachable), operands of solver-chosen kinds
           (int, Set, TreeSet, Bucket, BTree, list); traced execution of
           _base.multiunion / Set.update with the struct stub.
c_multi    compiled multiunion: operand layout, total size (both sides of the
           800-element switch from quicksort to radix sort) and the boundary keys
           mixed in are solver-chosen selectors; keys are concrete.
"""
from engine import shapes
from harness import common
from harness.common import fail
from harness import h_repr

FMT = {'I': 'i', 'U': 'I', 'L': 'q', 'Q': 'Q'}
KINDS = ['int', 'Set', 'TreeSet', 'Bucket', 'BTree', 'list']


def py_multi(P, ks, a):
    fam = P['family']
    h_repr.install_stub()
    cl = shapes.classes(fam, 'py')
    lo, hi = h_repr.RANGES[FMT[fam[0]]]
    n = P['n']
    xs = [a['x%d' % i] for i in range(n)]
    kinds = [KINDS[common.choose(a['k%d' % i], len(KINDS))] for i in range(P['nops'])]
    cut = common.choose(a['cut'], n + 1) if P['nops'] == 2 else n
    groups = [xs[:cut], xs[cut:]] if P['nops'] == 2 else [xs]
    ops = []
    for kind, g in zip(kinds, groups):
        if kind == 'int':
            ops.extend(g)                     # each integer is an operand of its own
        elif kind == 'list':
            ops.append(list(g))
        elif kind in ('Set', 'TreeSet'):
            ops.append(cl[kind](g))
        else:
            ops.append(cl[kind]([(x, 1) for x in g]))
    mu = getattr(cl['module'], 'multiunionPy')
    ctx = {'harness': 'py_multi', 'family': fam, 'kinds': kinds}
    try:
        r = mu(ops)
    except Exception as e:      # noqa
        fail('multiunion raised %s' % type(e).__name__, ctx)
        return
    if type(r) is not cl['Set']:
        fail('multiunion does not return a Set of the family', ctx)
        return
    got = list(r.keys())
    want = []
    for x in xs:
        if not any(x == q for q in want):
            want.append(x)
    res = []
    for x in want:
        i = 0
        while i < len(res) and res[i] < x:
            i += 1
        res.insert(i, x)
    if len(got) != len(res) or not all(p == q for p, q in zip(got, res)):
        fail('multiunion is not the sorted duplicate-free union of its inputs', ctx)
        return
    for x in xs:
        if x not in r:
            fail('a member of the union is not found in the result Set', ctx)
    if n:
        lo_k, hi_k = xs[0], xs[-1]
        if lo_k <= hi_k:
            rng = list(r.keys(lo_k, hi_k))
            exp = [q for q in res if lo_k <= q <= hi_k]
            if len(rng) != len(exp) or not all(p == q for p, q in zip(rng, exp)):
                fail('a range query on the result Set is wrong', ctx)


# ---------------------------------------------------------------------------

def boundary_keys(ch):
    lo, hi = h_repr.RANGES[FMT[ch]]
    top = (hi + 1) // 2 if lo == 0 else 0           # first key with the top bit set (unsigned families)
    ks = [lo, lo + 1, hi, hi - 1, 0, 1, 255, 256, 65535, 65536, 2 ** 24, 2 ** 31 - 1]
    if lo == 0:
        ks += [top, top + 5, top - 1, hi - 70000]
    else:
        ks += [-1, -256, -65537, lo + 70000]
    return sorted({k for k in ks if lo <= k <= hi})


def c_multi(P, ks, a):
    fam = P['family']
    size = (0, 3, 40, 799, 801, 900, 2000)[common.choose(a['size'], 7)]
    layout = common.choose(a['layout'], 5)
    spread = common.choose(a['spread'], 4)      # how the bulk keys are spaced: bytes varying
    nb = common.choose(a['nb'], 4)              # how many boundary keys are mixed in: 0, 2, half, all
    dup = common.flag(a['dup'])
    with common.untraced():
        cl = shapes.classes(fam, P['impl'])
        mod = cl['module']
        mu = getattr(mod, 'multiunion' + cl['sfx'])
        lo, hi = h_repr.RANGES[FMT[fam[0]]]
        step = (1, 257, 65537, 16777259)[spread]
        start = 0 if lo == 0 else -(size // 2) * step
        bulk = [start + i * step for i in range(size)]
        bulk = [k for k in bulk if lo <= k <= hi]
        bk = boundary_keys(fam[0])
        extra = [[], bk[:1] + bk[-1:], bk[::2], bk][nb]
        allk = bulk + extra
        if dup and allk:
            allk = allk + allk[:7] + [allk[-1]]
        # deterministic shuffle
        order = sorted(range(len(allk)), key=lambda i: (i * 7919 + 13) % max(1, len(allk)))
        allk = [allk[i] for i in order]
        want = sorted(set(allk))
        h = len(allk) // 2
        if layout == 0:
            ops = [list(allk)]
        elif layout == 1:
            ops = [cl['Set'](allk[:h]), cl['TreeSet'](allk[h:])]
        elif layout == 2:
            ops = [cl['Bucket']([(k, 1) for k in allk[:h]]) if fam[1] != 'O' or True else None, cl['BTree']([(k, 1) for k in allk[h:]])]
        elif layout == 3:
            ops = list(allk[:5]) + [list(allk[5:])]
        else:
            ops = [list(allk[:h]), iter(allk[h:]), cl['Set'](allk[:3])]
        ctx = {'harness': 'c_multi', 'family': fam, 'impl': P['impl'], 'size': size, 'layout': layout, 'spread': spread, 'nb': nb,
               'n': len(allk), 'unsigned': lo == 0, 'topbit': any(k > (hi // 2) for k in allk) if lo == 0 else False}
        try:
            r = mu(ops)
        except Exception as e:      # noqa
            fail('multiunion raised %s' % type(e).__name__, ctx)
            return
        if type(r) is not cl['Set']:
            fail('multiunion does not return a Set of the family', ctx)
            return
        got = list(r.keys())
        if got != want:
            bad = next((i for i, (p, q) in enumerate(zip(got, want)) if p != q), min(len(got), len(want)))
            fail('multiunion is not the sorted duplicate-free union of its inputs', ctx, len(got), len(want), bad, got[max(0, bad - 1):bad + 2])
            return
        for k in want[:3] + want[-3:] + want[len(want) // 2:len(want) // 2 + 2]:
            if k not in r:
                fail('a member of the union is not found in the result Set', ctx)
        if want:
            lo_k, hi_k = want[len(want) // 3], want[-1]
            if list(r.keys(lo_k, hi_k)) != [q for q in want if lo_k <= q <= hi_k]:
                fail('a range query on the result Set is wrong', ctx)
