"""C19: BTrees.Length as a conflict-free counter and as an integer cell.

Plain CrossHair tracing (no key class): the integers are unbounded z3 Ints, so
`resolve` is decided for ALL integers old, a, b; `cell` for all integer
arguments of a 3-call sequence whose call kinds are solver-chosen selectors.
"""
import copy
import pickle

from harness import common
from harness.common import fail


def _length():
    from BTrees.Length import Length
    return Length


def resolve(P, ks, a):
    Length = _length()
    old, da, db = a['old'], a['da'], a['db']
    ctx = {'harness': 'length_resolve'}
    s1, s2 = old + da, old + db
    r12 = Length()._p_resolveConflict(old, s1, s2)
    r21 = Length()._p_resolveConflict(old, s2, s1)
    if not (r12 == old + da + db):
        fail('resolution is not original + change_1 + change_2', ctx, old, da, db)
    if not (r21 == r12):
        fail('resolution depends on the order of the two transactions', ctx, old, da, db)
    # resolving on a live object must not disturb it
    L = Length(old)
    r = L._p_resolveConflict(old, s1, s2)
    if not (r == old + da + db) or not (L() == old):
        fail('resolution on a live object is wrong or modifies it', ctx)
    # a chain of two resolutions (three concurrent updates folded pairwise)
    dc = a['dc']
    r3 = Length()._p_resolveConflict(old, r12, old + dc)
    if not (r3 == old + da + db + dc):
        fail('folding a third concurrent update loses a change', ctx)


NOPS = 6


def cell(P, ks, a):
    Length = _length()
    ctx = {'harness': 'length_cell'}
    init = a['v0']
    if common.flag(a['default']):
        L = Length()
        model = 0
    else:
        L = Length(init)
        model = init
    for i in range(P['k']):
        op = common.choose(a['op%d' % i], NOPS)
        x = a['x%d' % i]
        if op == 0:
            L.set(x)
            model = x
        elif op == 1:
            L.change(x)
            model = model + x
        elif op == 2:
            got = L()
            if not (got == model):
                fail('calling the object does not return the cell value', ctx, i)
        elif op == 3:
            got = L.__getstate__()
            if not (got == model):
                fail('__getstate__ is not the cell value', ctx, i)
        elif op == 4:
            L.__setstate__(x)
            model = x
        else:
            # state round-trip into a fresh object and into a live one
            M = Length(x)
            M.__setstate__(L.__getstate__())
            if not (M() == model):
                fail('__setstate__(__getstate__()) into a live object does not reproduce the value', ctx, i)
            L = M
        if not (L() == model and L.value == model):
            fail('value differs from the integer cell', ctx, i)
    # per-path witness: pickle / copy of the realised value (pickle itself is outside the repo)
    v = common.peek(model)
    with common.untraced():
        W = Length(v)
        for proto in range(0, pickle.HIGHEST_PROTOCOL + 1):
            W2 = pickle.loads(pickle.dumps(W, proto))
            if type(W2) is not Length or W2() != v:
                fail('pickle round-trip changes the value', ctx, proto)
        if copy.copy(W)() != v or copy.deepcopy(W)() != v:
            fail('copy changes the value', ctx)
        W3 = Length(v + 1)
        W3.__setstate__(W.__getstate__())
        if W3() != v:
            fail('loading a state into a live object does not replace its value', ctx)
