"""C02: range searches, minKey/maxKey and lazy sequences from an arbitrary
reachable pre-state.

ks: strictly increasing symbolic ints (one per rank of the template)
a:  lo, hi (symbolic bound payloads), lom, him (bound mode: 0 omitted, 1 None,
    2 a key), exmin, exmax (flags), none0 (smallest stored key is None)
"""
from harness import common
from harness.common import fail, keq, klt, same_keys, same_pairs
from harness import keys as keys_mod
from harness.keys import K
from harness.h_step import classes, prestate

_OMIT = object()


def model_range(items, lo, hi, exmin, exmax):
    """items: ordered list of (key, value); lo/hi: _OMIT, None or a key."""
    out = list(items)
    if lo is _OMIT or lo is None:
        if exmin:
            out = out[1:]
    else:
        out = [i for i in out if (klt(lo, i[0]) if exmin else not klt(i[0], lo))]
    if hi is _OMIT or hi is None:
        if exmax:
            out = out[:-1]
    else:
        out = [i for i in out if (klt(i[0], hi) if exmax else not klt(hi, i[0]))]
    return out


def kwargs(lo, hi, exmin, exmax, positional):
    kw = {}
    if lo is not _OMIT:
        kw['min'] = lo
    if hi is not _OMIT:
        kw['max'] = hi
    if exmin:
        kw['excludemin'] = True
    if exmax:
        kw['excludemax'] = True
    if positional:
        # same call written positionally (None stands for an omitted bound)
        return (kw.get('min'), kw.get('max'), exmin, exmax), {}
    return (), kw


def range_step(P, ks, a):
    lom = common.choose(a['lom'], 3)
    him = common.choose(a['him'], 3)
    exmin = common.flag(a['exmin'])
    exmax = common.flag(a['exmax'])
    none0 = common.flag(a['none0']) if 'none0' in a else False
    with common.untraced():
        _range_step(P, ks, a, lom, him, exmin, exmax, none0)


def _bounds(a, lom, him, ks):
    """-> (stored key objects, lo, hi); bound payloads stay un-ranked, so every
    comparison of a bound with a stored key is a solver decision (lazy forking)."""
    kk = [K(k, i) for i, k in enumerate(ks)]
    lo = _OMIT if lom == 0 else None if lom == 1 else K(a['lo'])
    hi = _OMIT if him == 0 else None if him == 1 else K(a['hi'])
    return kk, lo, hi


def _range_step(P, ks, a, lom, him, exmin, exmax, none0):
    kind = P['kind']
    is_set = kind in ('TreeSet', 'Set')
    keys_mod.reset()
    kk, lo, hi = _bounds(a, lom, him, ks)
    t, m, kobj = prestate(P, ks, none0, kk)
    want = model_range(m.pairs(), lo, hi, exmin, exmax)
    wk = [i[0] for i in want]
    wv = [i[1] for i in want]
    ctx = {'harness': 'range_step', 'impl': P['impl'], 'kind': kind, 'lom': lom, 'him': him,
           'exmin': exmin, 'exmax': exmax}
    for positional in (False, True):
        ar, kw = kwargs(lo, hi, exmin, exmax, positional)
        if is_set:
            meths = [('keys', 'k'), ('iterkeys', 'k')] if hasattr(t, 'iterkeys') else [('keys', 'k')]
        else:
            meths = [('keys', 'k'), ('values', 'v'), ('items', 'i'), ('iterkeys', 'k'), ('itervalues', 'v'),
                     ('iteritems', 'i')]
        for name, what in meths:
            try:
                got = list(getattr(t, name)(*ar, **kw))
            except (TypeError, ValueError, KeyError, IndexError, AssertionError) as e:
                fail('%s() raised %s' % (name, type(e).__name__), dict(ctx, meth=name))
                continue
            if what == 'k':
                ok = same_keys(got, wk)
            elif what == 'v':
                ok = got == wv
            else:
                ok = same_pairs(got, want)
            if not ok:
                fail('%s(min,max,excludemin,excludemax) differs from the model slice' % name, dict(ctx, meth=name),
                     common.show(got), common.show(want), common.show(list(ar) or sorted(kw.items())))
    # the container itself is untouched by a query
    c = list(t.keys()) if is_set else list(t.items())
    if not (same_keys(c, m.keys()) if is_set else same_pairs(c, m.pairs())):
        fail('a range query changed the contents', ctx)


def minmax_step(P, ks, a):
    bm = common.choose(a['bm'], 3)
    which = common.choose(a['which'], 2)
    none0 = common.flag(a['none0']) if 'none0' in a else False
    with common.untraced():
        _minmax_step(P, ks, a, bm, which, none0)


def _minmax_step(P, ks, a, bm, which, none0):
    kind = P['kind']
    keys_mod.reset()
    kk, b, _ = _bounds(a, bm, 0, ks)
    t, m, kobj = prestate(P, ks, none0, kk)
    mk = m.keys()
    ctx = {'harness': 'minmax_step', 'impl': P['impl'], 'kind': kind, 'bm': bm, 'which': which}
    if which == 0:
        cands = mk if (b is _OMIT or b is None) else [k for k in mk if not klt(k, b)]
        want = cands[0] if cands else _OMIT
        f = t.minKey
    else:
        cands = mk if (b is _OMIT or b is None) else [k for k in mk if not klt(b, k)]
        want = cands[-1] if cands else _OMIT
        f = t.maxKey
    try:
        got = f() if b is _OMIT else f(b)
        exc = None
    except ValueError:
        got, exc = _OMIT, 'ValueError'
    except (TypeError, KeyError, IndexError, AssertionError) as e:
        got, exc = _OMIT, type(e).__name__
    ctx.update(n=len(mk), exc=exc)
    if want is _OMIT:
        if exc != 'ValueError':
            fail('minKey/maxKey without an answer must raise ValueError', ctx, exc, common.show(got))
    else:
        if exc is not None:
            fail('minKey/maxKey raised although a key qualifies', ctx, exc, common.show(want))
        elif not keq(got, want):
            fail('minKey/maxKey returned the wrong key', ctx, common.show(got), common.show(want))


def seq_step(P, ks, a):
    lom = common.choose(a['lom'], 2) * 2      # omitted or a key
    him = common.choose(a['him'], 2) * 2
    exmin = common.flag(a['exmin'])
    exmax = common.flag(a['exmax'])
    with common.untraced():
        _seq_step(P, ks, a, lom, him, exmin, exmax)


def _eq_item(what, g, w):
    if what == 'k':
        return keq(g, w[0])
    if what == 'v':
        return g == w[1]
    return isinstance(g, tuple) and len(g) == 2 and keq(g[0], w[0]) and g[1] == w[1]


def _seq_step(P, ks, a, lom, him, exmin, exmax):
    kind = P['kind']
    is_set = kind in ('TreeSet', 'Set')
    keys_mod.reset()
    kk, lo, hi = _bounds(a, lom, him, ks)
    t, m, kobj = prestate(P, ks, False, kk)
    want = model_range(m.pairs(), lo, hi, exmin, exmax)
    n = len(want)
    ar, kw = kwargs(lo, hi, exmin, exmax, False)
    ctx = {'harness': 'seq_step', 'impl': P['impl'], 'kind': kind, 'lom': lom, 'him': him,
           'exmin': exmin, 'exmax': exmax}
    meths = [('keys', 'k')] if is_set else [('keys', 'k'), ('values', 'v'), ('items', 'i')]
    idx = list(range(-n - 2, n + 2))
    for name, what in meths:
        seq = getattr(t, name)(*ar, **kw)
        c = dict(ctx, meth=name)
        if len(seq) != n:
            fail('len(lazy sequence) differs from the model slice', c, len(seq), n)
        if bool(seq) != (n > 0):
            fail('bool(lazy sequence) differs', c)
        # every ordered pair of consecutive index accesses on one sequence object
        # (all transitions of the search finger), each index in [-n-2, n+1];
        # values()/items() share the finger code with keys(): one zig-zag pass
        full = name == 'keys'
        if full:
            order = [q for i in idx for j in idx for q in (i, j)]
        else:
            order = idx + idx[::-1] + [q for pair in zip(idx, idx[::-1]) for q in pair]
        for q in order:
            try:
                g = seq[q]
                e = None
            except IndexError:
                g, e = None, 'IndexError'
            if -n <= q < n:
                if e is not None:
                    fail('seq[i] raised IndexError inside the range', c, q, n)
                elif not _eq_item(what, g, want[q]):
                    fail('seq[i] differs from list(seq)[i]', c, q, common.show(g), common.show(want[q]))
            elif e is None:
                fail('seq[i] outside the range must raise IndexError', c, q, n)
        # step-1 slices incl. open ends and negatives (all (i, j) for keys())
        ends = [None] + idx
        if full:
            pairs = [(i, j) for i in ends for j in ends]
        else:
            pairs = [(i, None) for i in ends] + [(None, j) for j in ends] + [(i, i + 2) for i in idx]
        for i, j in pairs:
            try:
                g = list(seq[i:j])
            except (IndexError, ValueError, TypeError) as ex:
                fail('seq[i:j] raised %s' % type(ex).__name__, c, i, j)
                continue
            w = want[i:j]
            ok = len(g) == len(w) and all(_eq_item(what, x, y) for x, y in zip(g, w))
            if not ok:
                fail('seq[i:j] differs from list(seq)[i:j]', c, i, j, common.show(g), common.show(w))
        # iteration after indexing still yields the whole range
        g = list(seq)
        if not (len(g) == n and all(_eq_item(what, x, y) for x, y in zip(g, want))):
            fail('list(seq) after indexing differs from the model slice', c, common.show(g), common.show(want))
