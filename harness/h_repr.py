"""C13: only representable keys and values are stored, and they read back exactly.

py_int     pure-Python native-int families with an UNBOUNDED symbolic integer
           offered as key or value through every writing entry point; the
           struct packer is replaced by a range-contract stub (calibrated against
           the real struct module at start-up).
native     compiled AND Python classes of every native family with solver-chosen
           selectors into boundary palettes (the compiled code unboxes its
           arguments, so they are concrete there); oracle = the declared range.
"""
import struct

from engine import shapes
from harness import common
from harness.common import fail

RANGES = {'i': (-2 ** 31, 2 ** 31 - 1), 'I': (0, 2 ** 32 - 1), 'q': (-2 ** 63, 2 ** 63 - 1), 'Q': (0, 2 ** 64 - 1)}
FMT = {'I': 'i', 'U': 'I', 'L': 'q', 'Q': 'Q'}


class StubPack:
    """contract of struct.Struct(fmt).pack for the integer formats: accepts exactly
    the integers of the format's range, raises struct.error otherwise"""
    def __init__(self, fmt):
        self.fmt = fmt
        self.lo, self.hi = RANGES[fmt]

    def __call__(self, x):
        if not isinstance(x, int):
            raise struct.error('required argument is not an integer')
        if x < self.lo or x > self.hi:
            raise struct.error('argument out of range')
        return b''


_CAL = {}


def calibrate():
    """the stub must agree with the real struct module on every boundary"""
    if _CAL:
        return
    for fmt, (lo, hi) in RANGES.items():
        real = struct.Struct(fmt).pack
        stub = StubPack(fmt)
        for x in (lo - 1, lo, lo + 1, -1, 0, 1, hi - 1, hi, hi + 1, 2 ** 70, -2 ** 70, True, False):
            def out(f):
                try:
                    f(x)
                    return 'ok'
                except struct.error:
                    return 'error'
            if out(real) != out(stub):
                raise RuntimeError('struct stub disagrees with struct for %s at %r' % (fmt, x))
        for x in (1.5, 'a', None):
            try:
                real(x)
                raise RuntimeError('struct accepted %r' % (x,))
            except (struct.error, TypeError):
                pass
    _CAL['ok'] = True


_INSTALLED = []


def install_stub():
    if _INSTALLED:
        return
    with common.untraced():
        _install_stub()
    _INSTALLED.append(1)


def _install_stub():
    from BTrees import _datatypes
    calibrate()

    class _Prop:
        def __get__(self, inst, owner):
            if inst is None:
                return self
            fmt = inst._struct_format
            return StubPack(fmt) if fmt in RANGES else struct.Struct(fmt).pack
    _datatypes._AbstractNativeDataType._check_native = _Prop()

    def index_stub(x):
        """contract of operator.index: an int is returned unchanged (operator.index itself is a C
        function that would realise a symbolic integer); anything else goes to the real one"""
        if isinstance(x, int):
            return x
        import operator
        return operator.index(x)
    _datatypes._AbstractNativeDataType._as_packable = staticmethod(index_stub)
    # drop values already cached by the Lazy descriptor
    import gc
    for o in gc.get_objects():
        if isinstance(o, _datatypes._AbstractNativeDataType):
            o.__dict__.pop('_check_native', None)


ENTRIES = ['setitem', 'insert', 'setdefault', 'update', 'ctor', 'value', 'setdefault_value', 'update_value', 'lookup',
           'update_container', 'ctor_container', 'update_container_value']
SET_ENTRIES = ['add', 'insert', 'update', 'ctor', 'ior', 'lookup', 'update_container', 'ctor_container']


def py_int(P, ks, a):
    """traced: the pure-Python classes run on the symbolic integer itself"""
    fam, kind = P['family'], P['kind']
    install_stub()
    cl = shapes.classes(fam, 'py')
    is_set = kind in ('Set', 'TreeSet')
    entries = SET_ENTRIES if is_set else ENTRIES
    e = entries[common.choose(a['e'], len(entries))]
    n = a['n']
    klo, khi = RANGES[FMT[fam[0]]]
    vlo, vhi = RANGES[FMT[fam[1]]] if fam[1] in FMT else (None, None)
    pre = common.choose(a['pre'], 2) if P.get('prefilled') else 0    # container empty or (thorough) holding two keys
    base = [] if pre == 0 else [3, 40]
    # the conversion objects themselves (every entry point goes through them)
    for conv, (clo, chi) in ((cl[kind]._to_key, (klo, khi)),) + (((cl[kind]._to_value, (vlo, vhi)),) if (not is_set and vlo is not None) else ()):
        try:
            r = conv(n)
            if not (clo <= n <= chi):
                fail('the conversion object accepted an integer outside its range', {'harness': 'py_int', 'family': fam, 'entry': 'conv'})
            elif not (r == n):
                fail('the conversion object changed the integer', {'harness': 'py_int', 'family': fam, 'entry': 'conv'})
        except TypeError:
            if clo <= n <= chi:
                fail('the conversion object rejected a representable integer', {'harness': 'py_int', 'family': fam, 'entry': 'conv'})
    t = cl[kind](base) if is_set else cl[kind]([(k, 1) for k in base])
    ctx = {'harness': 'py_int', 'family': fam, 'kind': kind, 'entry': e, 'pre': pre}
    as_value = e in ('value', 'setdefault_value', 'update_value', 'update_container_value')
    lo, hi = (vlo, vhi) if as_value else (klo, khi)
    representable = lo <= n <= hi
    exc = None
    try:
        if e == 'setitem':
            t[n] = 1
        elif e == 'insert':
            (t.insert(n) if is_set else (t.insert(n, 1) if kind == 'BTree' else t.update([(n, 1)])))
        elif e == 'setdefault':
            t.setdefault(n, 1)
        elif e == 'update':
            t.update([n] if is_set else [(n, 1)])
        elif e == 'ctor':
            t = cl[kind](base + [n]) if is_set else cl[kind]([(k, 1) for k in base] + [(n, 1)])
        elif e == 'add':
            t.add(n)
        elif e == 'ior':
            t |= [n]
        elif e == 'value':
            t[7] = n
        elif e == 'setdefault_value':
            t.setdefault(7, n)
        elif e == 'update_value':
            t.update({7: n})
        elif e in ('update_container', 'ctor_container', 'update_container_value'):
            # the data arrives inside a container of a WIDER family (object keys/values hold any integer)
            oo = shapes.classes('OO', 'py')
            if is_set:
                src = oo['TreeSet' if pre else 'Set']([n])
            elif e == 'update_container_value':
                src = oo['Bucket']([(7, n)])
            else:
                src = oo['BTree' if pre else 'Bucket']([(n, 1)])
            if e == 'ctor_container':
                t = cl[kind](src)
                base = []
            else:
                t.update(src)
        else:
            found = (n in t)
            got = 'absent' if is_set else t.get(n, 'absent')
            hk = t.has_key(n)
            if not representable and (found or hk or got != 'absent'):
                fail('looking up an unrepresentable key does not report absence', ctx)
            return
    except common.Fail:
        raise
    except TypeError:
        exc = 'TypeError'
    except Exception as ex:     # noqa
        fail('a write of an integer raised %s (only TypeError is allowed)' % type(ex).__name__, ctx)
        return
    keys = list(t.keys())
    if representable:
        if exc is not None:
            fail('a representable integer was rejected', ctx)
            return
        if as_value:
            if not (t[7] == n):
                fail('a stored value does not read back equal to what was written', ctx)
        else:
            if not (n in t) or not any(k == n for k in keys):
                fail('a stored key does not read back equal to what was written', ctx)
            if len(keys) != len(base) + (0 if any(b == n for b in base) else 1):
                fail('wrong number of keys after the write', ctx)
    else:
        if exc != 'TypeError':
            fail('an unrepresentable integer was accepted (stored or silently changed)', ctx)
        elif e != 'ctor' and keys != base:
            fail('a rejected write modified the container', ctx)
    for k in keys:
        if not (klo <= k <= khi):
            fail('the container holds a key outside the family range', ctx)


# ---------------------------------------------------------------------------

INTS = [0, 1, -1, 2 ** 31 - 1, 2 ** 31, -2 ** 31, -2 ** 31 - 1, 2 ** 32 - 1, 2 ** 32, 2 ** 63 - 1, 2 ** 63, -2 ** 63, -2 ** 63 - 1, 2 ** 64 - 1,
        2 ** 64, 2 ** 100, -2 ** 100, 12345]
FLOATS = [0.0, 1.5, -2.25, 0.1, 1e-45, 1e-50, 3.4028234663852886e38, 3.5e38, 1e40, -1e40, float('inf'), float('-inf'), float('nan'), 16777217.0]
OTHERS = [None, True, False, 'a', b'ab', b'abcdef', b'abc', b'', (1,), 1 + 2j]


class NoCmp:
    pass


def in_range(ch, x):
    return type(x) in (int, bool) and RANGES[FMT[ch]][0] <= int(x) <= RANGES[FMT[ch]][1]


def f32(x):
    return struct.unpack('f', struct.pack('f', x))[0]


def accepts(ch, x):
    """declared domain of a key/value type character; -> (accepted, expected read-back)"""
    if ch in FMT:
        return (True, int(x)) if in_range(ch, x) else (False, None)
    if ch == 'F':
        if type(x) is float:
            if x != x or x in (float('inf'), float('-inf')):
                return None, None           # non-finite: reported as found, no oracle
            try:
                r = f32(x)
            except OverflowError:
                return False, None
            if r in (float('inf'), float('-inf')):
                return False, None          # not representable as a 32-bit float
            return True, r
        if type(x) in (int, bool):
            try:
                r = f32(float(x))
            except OverflowError:
                return False, None
            if r in (float('inf'), float('-inf')):
                return False, None
            return True, r
        return False, None
    if ch == 'f':
        return (type(x) is bytes and len(x) == 2), x
    if ch == 's':
        return (type(x) is bytes and len(x) == 6), x
    if ch == 'O':
        if isinstance(x, NoCmp):
            return False, None      # default comparison: not an orderable object
        if x is None:
            return True, None       # None is the smallest object key
        return None, None           # other objects: usable iff orderable against the stored keys (no oracle here)
    raise KeyError(ch)


N_ENTRIES = ['setitem', 'setdefault', 'update', 'ctor', 'insert', 'value', 'setdefault_value', 'lookup', 'setstate', 'setstate_value', 'overwrite',
             'update_container', 'update_container_value']
NS_ENTRIES = ['add', 'update', 'ctor', 'insert', 'lookup', 'setstate', 'update_container']


def good(ch, i=0):
    return {'I': 5 + i, 'U': 5 + i, 'L': 5 + i, 'Q': 5 + i, 'F': 1.0 + i, 'f': bytes([97, 98 + i]), 's': bytes([97] * 5 + [98 + i]),
            'O': 'k%d' % i}[ch]


def native(P, ks, a):
    fam, kind, impl = P['family'], P['kind'], P['impl']
    is_set = kind in ('Set', 'TreeSet')
    entries = NS_ENTRIES if is_set else N_ENTRIES
    e = entries[common.choose(a['e'], len(entries))]
    pal = INTS + FLOATS + OTHERS + [NoCmp()]
    x = pal[common.choose(a['p'], len(pal))]
    with common.untraced():
        cl = shapes.classes(fam, impl)
        kch, vch = ('f', 's') if fam == 'fs' else (fam[0], fam[1])
        as_value = e in ('value', 'setdefault_value', 'setstate_value', 'overwrite', 'update_container_value')
        ch = vch if as_value else kch
        ok, back = accepts(ch, x)
        if ch == 'O' and (as_value or e == 'setstate'):
            ok, back = None, None       # any object is a legal VALUE; __setstate__ deliberately loads whatever keys a stored record holds
        ctx = {'harness': 'native', 'family': fam, 'kind': kind, 'impl': impl, 'entry': e, 'argtype': type(x).__name__,
               'ch': ch, 'arg': repr(x)[:30], 'domain_ok': ok}
        gk, gv = good(kch), (None if is_set else good(vch))
        n0 = P.get('n0', 1)             # entries before the write: 0 (empty), 1, 3
        if n0 == 0 and e == 'overwrite':
            return
        base = [good(kch, i) for i in (0, 2, 3)[:n0]]
        t = cl[kind](base) if is_set else cl[kind]([(k_, gv) for k_ in base])
        ctx['n0'] = n0
        before = list(t.keys()) if is_set else list(t.items())
        k2 = good(kch, 1)
        exc = None
        try:
            if e == 'setitem':
                t[x] = gv
            elif e == 'setdefault':
                t.setdefault(x, gv)
            elif e == 'update':
                t.update([x] if is_set else [(x, gv)])
            elif e == 'ctor':
                t = cl[kind]([x]) if is_set else cl[kind]([(x, gv)])
                before = []
            elif e == 'insert':
                (t.insert(x) if is_set else (t.insert(x, gv) if kind == 'BTree' else t.update({x: gv})))
            elif e == 'add':
                t.add(x)
            elif e in ('update_container', 'update_container_value'):
                # the same datum inside a container of the object family (compiled and pure-Python in turn)
                oo = shapes.classes('OO', 'py' if (n0 % 2) else 'c')
                try:
                    src = oo['Set']([x]) if is_set else (oo['Bucket']([(k2, x)]) if as_value else oo['BTree']([(x, gv)]))
                except TypeError:
                    return              # not even an object key (default comparison)
                t.update(src)
            elif e == 'value':
                t[k2] = x
            elif e == 'setdefault_value':
                t.setdefault(k2, x)
            elif e == 'overwrite':
                # replace the value of an EXISTING key, starting from a value that differs by 2**32
                # (an integer compare truncated to 32 bits would see no change)
                if type(x) is int:
                    try:
                        t[gk] = x - 2 ** 32
                    except TypeError:
                        try:
                            t[gk] = x + 2 ** 32
                        except TypeError:
                            pass
                    before = list(t.items())
                t[gk] = x
            elif e in ('setstate', 'setstate_value'):
                leaf = cl['Set' if is_set else 'Bucket']()
                if is_set:
                    leaf.__setstate__(((x,),))
                elif e == 'setstate':
                    leaf.__setstate__(((x, gv),))
                else:
                    leaf.__setstate__(((gk, x),))
                t = leaf
                before = []
            else:
                found = x in t
                got = 'absent' if is_set else t.get(x, 'absent')
                if ok is False and (found or got != 'absent'):
                    fail('looking up an unrepresentable key does not report absence', ctx)
                return
        except TypeError:
            exc = 'TypeError'
        except Exception as ex:     # noqa
            exc = type(ex).__name__
        ctx['exc'] = exc
        try:
            now = list(t.keys()) if is_set else list(t.items())
        except Exception as ex:     # noqa
            fail('the container cannot be read after the write (%s)' % type(ex).__name__, ctx)
            return
        # whatever happened, the container is sound and consistent with what it lists (C03)
        try:
            if len(t) != len(now) or bool(t) != bool(now):
                fail('len()/bool() disagree with the listed contents after the write', ctx)
            if kind in ('BTree', 'TreeSet') and type(t) is cl[kind]:
                t._check()
                from BTrees.check import check as _chk
                _chk(t)
                if (t.__getstate__() is None) != (not now):
                    fail('the serialized state of the tree is None iff it is empty: violated after the write', ctx)
        except common.Fail:
            raise
        except Exception as ex:     # noqa
            fail('the container is unsound after the write (%s: %s)' % (type(ex).__name__, str(ex)[:60]), ctx)
        if ok is None:
            return                  # no oracle for this value (non-finite floats, large ints as floats)
        if ok:
            if exc is not None:
                fail('representable %s data was rejected with %s' % (ch, exc), ctx)
                return
            if as_value:
                stored = dict(now).get(k2 if e not in ('setstate_value', 'overwrite') else gk)
                if not (type(stored) is type(back) and stored == back):
                    fail('a stored value does not read back as written (%r, expected %r)' % (stored, back), ctx)
            else:
                ks_ = now if is_set else [k for k, _ in now]
                hit = [k for k in ks_ if type(k) is type(back) and k == back]
                if not hit or not (x in t):
                    fail('a stored key does not read back as written', ctx, repr(ks_))
        else:
            if exc != 'TypeError':
                fail('unrepresentable %s data was not rejected with TypeError (outcome: %s, contents now %r)' % (ch, exc, now), ctx)
            elif now != before:
                fail('a rejected write modified the container', ctx)
