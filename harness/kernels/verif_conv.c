/* Trampolines for engine E2, conversion layer.  No logic of its own: includes the repository's real family
 * source (-DFAMILY_C="_LLBTree.c"), i.e. the real key/value macro headers and the real longlong_convert /
 * ulonglong_convert helpers, and wraps the conversion macros the containers use on every write. */
#include FAMILY_C

int v_key_from_arg(PyObject *arg, KEY_TYPE *out)
{
    int copied = 1;
    KEY_TYPE k;
    COPY_KEY_FROM_ARG(k, arg, copied);
    if (copied)
        *out = k;
    return copied;
}

#ifndef VALUE_TYPE_IS_PYOBJECT
int v_value_from_arg(PyObject *arg, VALUE_TYPE *out)
{
    int copied = 1;
    VALUE_TYPE v;
    COPY_VALUE_FROM_ARG(v, arg, copied);
    if (copied)
        *out = v;
    return copied;
}
#endif
