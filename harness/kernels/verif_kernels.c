/* Trampolines for engine E2 (clang IR -> z3).  This file contains NO logic of its own: it includes the
 * repository's real intkeymacros.h and sorters.c (selected family via -DZODB_64BIT_INTS / -DZODB_UNSIGNED_KEY_INTS,
 * exactly as _XXBTree.c defines them) and exports one-line wrappers around the static kernels so that
 *  - clang -S -emit-llvm gives the IR that the symbolic interpreter executes, and
 *  - gcc -shared gives the native functions used for translator validation and counterexample replay. */
#include <Python.h>
#include "intkeymacros.h"
#include "sorters.c"

size_t v_uniq(KEY_TYPE *out, KEY_TYPE *in, size_t n) { return uniq(out, in, n); }
void v_quicksort(KEY_TYPE *p, size_t n) { quicksort(p, n); }
size_t v_sort_int_nodups(KEY_TYPE *p, size_t n) { return sort_int_nodups(p, n); }
size_t v_keysize(void) { return sizeof(KEY_TYPE); }
int v_key_is_signed(void) { return ((KEY_TYPE)-1) < 0; }
