"""C06: serialized state round-trips, identically in C and Python.

P: kind (BTree|TreeSet|Bucket|Set), tpl/L/I/prov/hist (trees) or n (leaves)
ks: strictly increasing symbolic key payloads; a: x (key of the follow-up
    mutation), op (its selector), none0
Both implementations are exercised inside one path.
"""
import copy
import pickle

from engine import shapes
from harness import common
from harness.common import Model, fail, keq, klt, same_keys, same_pairs
from harness import keys as keys_mod
from harness.keys import K
from harness import h_step
from harness.h_step import prestate, contents, map_op, set_op, VNEW


def cls_of(P, impl):
    return h_step.classes(dict(P, impl=impl))


def is_leaf(node, cl):
    return type(node) in (cl['Bucket'], cl['Set'])


def clone(node, src, dst, is_set, memo):
    """Rebuild `node` (implementation `src`) as implementation `dst` purely from
    __getstate__/__setstate__, object by object, the way unpickling does."""
    if node is None:
        return None
    if id(node) in memo:
        return memo[id(node)]
    tree_s, leaf_s = src['TreeSet' if is_set else 'BTree'], src['Set' if is_set else 'Bucket']
    tree_d, leaf_d = dst['TreeSet' if is_set else 'BTree'], dst['Set' if is_set else 'Bucket']
    st = node.__getstate__()
    if type(node) is leaf_s:
        new = leaf_d()
        memo[id(node)] = new
        if len(st) == 2:
            new.__setstate__((st[0], clone(st[1], src, dst, is_set, memo)))
        else:
            new.__setstate__((st[0],))
        return new
    if type(node) is not tree_s:
        raise RuntimeError('unexpected node type %r' % type(node))
    new = tree_d()
    memo[id(node)] = new
    if st is None:
        return new
    if len(st) == 1:
        inner = st[0][0]            # leaf state embedded in the tree state
        if len(inner) == 2:
            inner = (inner[0], clone(inner[1], src, dst, is_set, memo))
        new.__setstate__(((inner,),))
        return new
    items, first = st
    out = []
    for i, x in enumerate(items):
        out.append(x if i % 2 else clone(x, src, dst, is_set, memo))
    new.__setstate__((tuple(out), clone(first, src, dst, is_set, memo)))
    return new


def _norm(node, cl, is_set, memo):
    """implementation-independent rendering of a node's state graph (keys by identity)."""
    if node is None:
        return None
    if id(node) in memo:
        return ('ref', memo[id(node)])
    memo[id(node)] = len(memo)
    st = node.__getstate__()
    leaf = cl['Set' if is_set else 'Bucket']
    if type(node) is leaf:
        return ('L', tuple(id(x) if not isinstance(x, int) else x for x in st[0]),
                _norm(st[1], cl, is_set, memo) if len(st) == 2 else None)
    if st is None:
        return ('T', None)
    if len(st) == 1:
        inner = st[0][0]
        return ('T1', tuple(id(x) if not isinstance(x, int) else x for x in inner[0]),
                _norm(inner[1], cl, is_set, memo) if len(inner) == 2 else None)
    items, first = st
    return ('T', tuple(id(x) if i % 2 else _norm(x, cl, is_set, memo) for i, x in enumerate(items)),
            _norm(first, cl, is_set, memo))


def norm(node, cl, is_set, memo):
    try:
        return _norm(node, cl, is_set, memo)
    except Exception as e:          # noqa: the state handed out by the code under test has no legal form
        fail('__getstate__ returned a state of no documented form (%s)' % type(e).__name__, {'harness': 'state_step'})
        return ('malformed', id(node))


def check_tree(t, cl, P, m, is_set, what, ctx, sizes=True):
    kind = P['kind']
    try:
        c = contents(t, is_set)
    except Exception as e:          # noqa
        fail('%s: reading the contents raised %s' % (what, type(e).__name__), ctx)
        return
    if not (same_keys(c, m.keys()) if is_set else same_pairs(c, m.pairs())):
        fail('%s: ordered contents differ' % what, ctx, common.show(c), common.show(m.pairs()))
    if len(t) != len(m):
        fail('%s: len() differs' % what, ctx)
    if kind in ('BTree', 'TreeSet'):
        h_step.sound(t, dict(P, L=P.get('L') if sizes else None, I=P.get('I') if sizes else None), cl, what, ctx)
    for k in m.keys():
        if k not in t:
            fail('%s: a stored key is not found by lookup' % what, ctx)


def mutate(t, m, P, a, op, is_set, what, ctx, x=None):
    x = K(a['x']) if x is None else x
    grp = 'write' if op < 3 else 'del'
    o = op if op < 3 else op - 3
    if is_set:
        got, ge, want, we, loose = set_op(t, m, grp, o, x, x, True)
    else:
        got, ge, want, we, loose = map_op(t, m, grp, o, x, x, VNEW, P['kind'] == 'BTree')
    if ge != we:
        fail('%s: follow-up operation raised %s, model %s' % (what, ge, we), ctx)
    elif ge is None and not (got is want or got == want):
        fail('%s: follow-up operation returned a wrong value' % what, ctx)


def state_step(P, ks, a):
    op = common.choose(a['op'], 6)
    none0 = common.flag(a['none0']) if 'none0' in a else False
    # concrete witness of the path's key order for the byte-level part
    conc = [common.peek(k) for k in ks]
    with common.untraced():
        _state_step(P, ks, a, op, none0, conc)


def _state_step(P, ks, a, op, none0, conc):
    kind = P['kind']
    is_set = kind in ('TreeSet', 'Set')
    is_tree = kind in ('BTree', 'TreeSet')
    keys_mod.reset()
    kk = [K(k, i) for i, k in enumerate(ks)]
    ctx = {'harness': 'state_step', 'kind': kind, 'stored': bool(P.get('stored')),
           'embedded_nonroot': bool(P.get('embedded_nonroot')) and not P.get('stored')}
    built = {}
    for impl in ('c', 'py'):
        Pi = dict(P, impl=impl)
        try:
            t, m, kobj = prestate(Pi, ks, none0, kk)
        except common.Fail:
            raise
        except Exception as e:      # noqa
            # the pre-state is the state (__getstate__ form) of a tree that a real history produced: loading it IS the property
            fail('the state of a reachable tree is rejected by __setstate__ (%s: %s)' % (type(e).__name__, str(e)[:80]), dict(ctx, impl=impl))
            return
        if P.get('stored'):
            shapes.tag_all(t)       # every node has an oid, as in a stored tree
        built[impl] = (t, m, cls_of(P, impl))
    # normalised states of both implementations agree
    nc = norm(built['c'][0], built['c'][2], is_set, {})
    npy = norm(built['py'][0], built['py'][2], is_set, {})
    if nc != npy:
        fail('C and Python __getstate__ differ for the same container', ctx)
    xkey = K(a['x'])
    post = {}
    for src in ('c', 'py'):
        t, m, cl_s = built[src]
        for dst in ('c', 'py'):
            cl_d = built[dst][2]
            c = dict(ctx, src=src, dst=dst)
            what = 'state of %s loaded into %s' % (src, dst)
            try:
                t2 = clone(t, cl_s, cl_d, is_set, {})
            except Exception as e:  # noqa
                fail('%s: __setstate__(__getstate__()) raised %s' % (what, type(e).__name__), c)
                continue
            check_tree(t2, cl_d, dict(P, impl=dst), m, is_set, what, c, sizes=False)
            if P.get('stored'):
                shapes.tag_all(t2)
            if norm(t2, cl_d, is_set, {}) != nc and not ctx['embedded_nonroot']:
                fail('%s: state of the reloaded container differs from the original state' % what, c)
            m2 = m.copy()
            mutate(t2, m2, P, a, op, is_set, what, c, xkey)
            if P.get('stored'):
                # the same operation on the same state: the serialized forms of the four results must agree
                shapes.tag_all(t2)
                post[(src, dst)] = norm(t2, cl_d, is_set, {})
            check_tree(t2, cl_d, dict(P, impl=dst), m2, is_set, what + ', then one operation', c, sizes=False)
            # the source is untouched by all this
            check_tree(t, cl_s, dict(P, impl=src), m, is_set, 'original after its state was read', c, sizes=False)
        # a second __setstate__ on an already loaded, non-empty node replaces its state completely (nothing of the
        # old state - contents, successor link - survives); every node of a fresh clone in turn, in both implementations
        reload_nodes(t, cl_s, src, is_set, nc, m, P, ctx)
        # copy.copy goes through __reduce__/__getstate__/__setstate__
        try:
            t3 = copy.copy(t)
        except Exception as e:      # noqa
            fail('copy.copy raised %s' % type(e).__name__, dict(ctx, src=src, exc=type(e).__name__, multi=bool(is_tree and nc[0] == 'T' and nc[1] is not None)))
        else:
            check_tree(t3, built['c'][2] if type(t3) is built['c'][2][kind] else cl_s, dict(P, impl=src), m, is_set,
                       'copy.copy of ' + src, dict(ctx, src=src), sizes=False)
    if len(set(post.values())) > 1:
        fail('after the same follow-up operation on the same loaded state the serialized states of the C and the Python container differ',
             dict(ctx, op=op), sorted((k_, v_ == post[('c', 'c')]) for k_, v_ in post.items()))
    witness(P, conc, none0, is_set, ctx)


def graph_nodes(node, cl, is_set, out, seen):
    if node is None or id(node) in seen:
        return
    seen.add(id(node))
    out.append(node)
    st = node.__getstate__()
    if is_leaf(node, cl):
        if len(st) == 2:
            graph_nodes(st[1], cl, is_set, out, seen)
        return
    if st is None or len(st) == 1:
        return
    for i, x in enumerate(st[0]):
        if not i % 2:
            graph_nodes(x, cl, is_set, out, seen)
    graph_nodes(st[1], cl, is_set, out, seen)


def reload_nodes(t, cl, impl, is_set, nc, m, P, ctx):
    c = dict(ctx, src=impl, dst=impl, via='reload')
    try:
        r = clone(t, cl, cl, is_set, {})
        st = r.__getstate__()
        r.__setstate__(st)
    except Exception as e:          # noqa
        fail('a second __setstate__ with the container\'s own state raised %s' % type(e).__name__, c)
        return
    check_tree(r, cl, dict(P, impl=impl), m, is_set, 'container reloaded with its own state', c, sizes=False)
    if P.get('stored'):
        shapes.tag_all(r)
    if norm(r, cl, is_set, {}) != nc and not ctx['embedded_nonroot']:
        fail('container reloaded with its own state: state differs from the original state', c)
    nodes = []
    graph_nodes(r, cl, is_set, nodes, set())
    for n in reversed(nodes):
        try:
            if is_leaf(n, cl):
                items = n.__getstate__()[0]
                half = items[:(1 if is_set else 2)]
                n.__setstate__((half,))
                got = n.__getstate__()
                ok = len(got) == 1 and len(got[0]) == len(half) and all(x is y for x, y in zip(got[0], half)) \
                    and len(n) == 1 if half else len(n) == 0
            else:
                n.__setstate__(None)
                ok = n.__getstate__() is None and len(n) == 0 and not list(n.keys())
        except Exception as e:      # noqa
            fail('__setstate__ on a loaded node raised %s' % type(e).__name__, dict(c, leaf=is_leaf(n, cl)))
            continue
        if not ok:
            fail('__setstate__ on a loaded, non-empty node: parts of the previous state survive (__getstate__ does not return the state just set)',
                 dict(c, leaf=is_leaf(n, cl)))


def witness(P, conc, none0, is_set, ctx):
    """byte level, on the concrete witness of this path (pickle realises symbols)."""
    kind = P['kind']
    blobs = {}
    objs = {}
    for impl in ('c', 'py'):
        t, m, _ = prestate(dict(P, impl=impl), conc, none0, list(conc))
        if P.get('stored'):
            shapes.tag_all(t)
        objs[impl] = (t, m)
        blobs[impl] = [pickle.dumps(t, proto) for proto in range(0, pickle.HIGHEST_PROTOCOL + 1)]
    for proto, (bc, bp) in enumerate(zip(blobs['c'], blobs['py'])):
        if bc != bp:
            fail('C and Python pickles differ (protocol %d)' % proto, dict(ctx, proto=proto), bc, bp)
    for impl in ('c', 'py'):
        t, m = objs[impl]
        cl = cls_of(P, 'c')         # both pickle under the C class names
        for proto, b in enumerate(blobs[impl]):
            c = dict(ctx, src=impl, proto=proto, via='pickle')
            try:
                t2 = pickle.loads(b)
            except Exception as e:  # noqa
                fail('unpickling raised %s' % type(e).__name__, c)
                continue
            if type(t2) is not cl[kind]:
                fail('unpickled object has the wrong class', c)
                continue
            check_tree(t2, cl, dict(P, impl='c'), m, is_set, 'pickle round-trip of ' + impl, c, sizes=False)
        for f, nm in ((copy.deepcopy, 'deepcopy'),):
            c = dict(ctx, src=impl, via=nm)
            try:
                t2 = f(t)
            except Exception as e:  # noqa
                fail('%s raised %s' % (nm, type(e).__name__), c)
                continue
            cl2 = cls_of(P, 'c') if type(t2) is cls_of(P, 'c')[kind] else cls_of(P, 'py')
            check_tree(t2, cl2, dict(P, impl=impl), m, is_set, nm + ' of ' + impl, c, sizes=False)
