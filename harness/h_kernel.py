"""Concrete replay of an E2 counterexample: the natively compiled kernel
(harness/kernels/verif_kernels.c = the real sorters.c + one-line wrappers) is
called through ctypes on the solver's words."""
import tempfile

from harness.common import fail


def k_native(P, ks, a):
    from engine import llsym_run
    d = tempfile.mkdtemp(prefix='btvk.')
    try:
        K = llsym_run.build(P['family'], d)
        n = P['n']
        xs = [a['x%d' % i] for i in range(n)]
        kernel = P['kernel']
        w = K['ks'] * 8
        key = (lambda v: v) if K['signed'] else (lambda v: v & ((1 << w) - 1))
        r, out = llsym_run.native(K, kernel, xs)
        ctx = {'harness': 'k_native', 'family': P['family'], 'kernel': kernel}
        if kernel == 'quicksort':
            if sorted(out, key=key) != out or sorted(out) != sorted(xs):
                fail('quicksort output is not the sorted permutation of its input', ctx, xs, out)
        else:
            got = out[:r]
            want = sorted(set(xs), key=key)
            if kernel in ('uniq', 'uniq_copy') and sorted(xs, key=key) != xs:
                return
            if got != want:
                fail('%s output is not the strictly ascending set of its input' % kernel, ctx, xs, got, want)
    finally:
        import shutil
        shutil.rmtree(d, ignore_errors=True)
