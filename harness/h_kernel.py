"""Concrete replay of an E2 counterexample: the natively compiled kernel
(harness/kernels/verif_kernels.c = the real sorters.c + one-line wrappers) is
called through ctypes on the solver's words."""
import tempfile

from harness.common import fail


def k_native(P, ks, a):
    from engine import llsym_run
    d = tempfile.mkdtemp(prefix='btvk.')
    try:
        K = llsym_run.build(P['family'], d)
        n = P['n']
        xs = [a['x%d' % i] for i in range(n)]
        kernel = P['kernel']
        w = K['ks'] * 8
        key = (lambda v: v) if K['signed'] else (lambda v: v & ((1 << w) - 1))
        r, out = llsym_run.native(K, kernel, xs)
        ctx = {'harness': 'k_native', 'family': P['family'], 'kernel': kernel}
        if kernel == 'quicksort':
            if sorted(out, key=key) != out or sorted(out) != sorted(xs):
                fail('quicksort output is not the sorted permutation of its input', ctx, xs, out)
        else:
            got = out[:r]
            want = sorted(set(xs), key=key)
            if kernel in ('uniq', 'uniq_copy') and sorted(xs, key=key) != xs:
                return
            if got != want:
                fail('%s output is not the strictly ascending set of its input' % kernel, ctx, xs, got, want)
    finally:
        import shutil
        shutil.rmtree(d, ignore_errors=True)


def conv_native(P, ks, a):
    """replay of an E2 conversion counterexample through the public API of the compiled family"""
    from engine import shapes
    fam, which = P['family'], P['which']
    cl = shapes.classes(fam, 'c')
    n = a['n'] if a['is_int'] else 'not-an-int'
    ch = fam[0] if which == 'key' else fam[1]
    bits, signed = {'I': (32, True), 'U': (32, False), 'L': (64, True), 'Q': (64, False)}[ch]
    lo, hi = (-(1 << (bits - 1)), (1 << (bits - 1)) - 1) if signed else (0, (1 << bits) - 1)
    ok = a['is_int'] and lo <= a['n'] <= hi
    b = cl['Bucket']()
    ctx = {'harness': 'conv_native', 'family': fam, 'which': which}
    try:
        if which == 'key':
            b[n] = 1
            back = list(b.keys())
        else:
            b[1] = n
            back = list(b.values())
        exc = None
    except TypeError:
        exc, back = 'TypeError', list(b.keys())
    except Exception as e:      # noqa
        exc, back = type(e).__name__, None
    if ok and (exc is not None or back != [a['n']]):
        fail('a representable integer was rejected or changed by the compiled conversion', ctx, exc, back)
    if not ok and (exc != 'TypeError' or back):
        fail('an unrepresentable argument was not rejected with TypeError by the compiled conversion', ctx, exc, back)


def leaf_native(P, ks, a):
    """replay of an E2 leaf-kernel counterexample through the public API of the compiled family's Bucket"""
    from engine import shapes
    fam, n = P['family'], P['n']
    cl = shapes.classes(fam, 'c')
    keys = [a['k%d' % i] for i in range(n)]
    arg = a['n']
    b = cl['Bucket']()
    b.__setstate__((tuple(x for i, k in enumerate(keys) for x in (k, i + 1)),))
    ctx = {'harness': 'leaf_native', 'family': fam, 'kernel': P['kernel']}
    st0 = b._p_state
    if P['kernel'] == 'leaf_get':
        want = dict(zip(keys, range(1, n + 1))).get(arg, 'absent')
        try:
            got = b.get(arg, 'absent') if P['has_key'] == 0 else (arg in b)
        except Exception as e:      # noqa
            got = type(e).__name__
        exp = want if P['has_key'] == 0 else (want != 'absent')
        if got != exp:
            fail('compiled leaf lookup differs from the sorted-map model', ctx, keys, arg, got, exp)
    else:
        low, ex = P['low'], P['exclude']
        try:
            got = list(b.keys(arg, None, bool(ex), False)) if low else list(b.keys(None, arg, False, bool(ex)))
        except Exception as e:      # noqa
            got = type(e).__name__
        try:
            if low:
                exp = [k for k in keys if (k > arg if ex else k >= arg)]
            else:
                exp = [k for k in keys if (k < arg if ex else k <= arg)]
        except TypeError:
            exp = got
        if not isinstance(arg, int) or abs(arg) >= 2 ** 64:
            exp = got if isinstance(got, str) else exp
        if got != exp:
            fail('compiled leaf range end differs from the model', ctx, keys, arg, got, exp)
    if b._p_state != st0:
        fail('the leaf is left in another persistence state (pin not released)', ctx, st0, b._p_state)


def leaf_set_native(P, ks, a):
    """replay of an E2 _bucket_set counterexample through the compiled Bucket's public API"""
    from engine import shapes
    fam, n, op = P['family'], P['n'], P['op']
    cl = shapes.classes(fam, 'c')
    keys = [a['k%d' % i] for i in range(n)]
    vals = [a['w%d' % i] for i in range(n)]
    b = cl['Bucket']()
    b.__setstate__((tuple(x for k, v in zip(keys, vals) for x in (k, v)),))
    model = dict(zip(keys, vals))
    ctx = {'harness': 'leaf_set_native', 'family': fam, 'op': op}
    b._p_changed = False
    st0 = b._p_state
    try:
        if op == 'set':
            b[a['n']] = a['v']
            model[a['n']] = a['v']
        elif op == 'insert':
            b.setdefault(a['n'], a['v'])
            model.setdefault(a['n'], a['v'])
        else:
            try:
                del b[a['n']]
                ok = True
            except KeyError:
                ok = False
            if ok != (a['n'] in model):
                fail('compiled leaf delete: KeyError iff the key is absent is violated', ctx)
            model.pop(a['n'], None)
    except Exception as e:      # noqa
        fail('compiled leaf %s raised %s on representable data' % (op, type(e).__name__), ctx)
    got = list(b.items())
    if got != sorted(model.items()):
        fail('compiled leaf contents differ from the sorted-map model after %s' % op, ctx, got, sorted(model.items()))
    changed = sorted(model.items()) != sorted(zip(keys, vals))
    if bool(b._p_changed) != changed and b._p_jar is not None:
        fail('change notification differs from "modified"', ctx)


def tree_native(P, ks, a):
    """replay of an E2 _BTree_get counterexample: the compiled family's BTree, loaded with the template"""
    from engine import shapes

    def tup(x):
        return tuple(tup(i) for i in x) if isinstance(x, (list, tuple)) else x
    fam, tpl = P['family'], tup(P['tpl'])
    cl = shapes.classes(fam, 'c')
    m = shapes.n_ranks(tpl)
    keys = [a['k%d' % i] for i in range(m)]
    t = shapes.build_loaded(tpl, keys, cl, 'BTree', lambda r: r + 1)
    stored = {keys[r]: r + 1 for r in set(shapes.leaf_keys(tpl))}
    ctx = {'harness': 'tree_native', 'family': fam}
    n = a['n']
    got = t.get(n, 'absent') if P['has_key'] == 0 else (n in t)
    exp = stored.get(n, 'absent') if P['has_key'] == 0 else (n in stored)
    if got != exp:
        fail('compiled tree lookup differs from the sorted-map model', ctx, keys, n, got, exp)


class _Jar:
    """the two calls a persistent object makes on its data manager when it is modified / loaded"""

    def __init__(self):
        self.registered = []

    def register(self, obj):
        self.registered.append(obj)

    def setstate(self, obj):
        raise RuntimeError('no ghosts in this replay')

    def readCurrent(self, obj):
        pass


def _nodes(t):
    """all nodes of a real tree, root first: interior nodes by descent (public __getstate__), leaves along the chain
    (a node with one oid-less leaf serialises that leaf inline, so descent alone would miss it)"""
    out, todo = [], [t]
    while todo:
        n = todo.pop()
        out.append(n)
        st = n.__getstate__()
        if st is None:
            continue
        for x in st[0][::2]:
            if hasattr(x, '_firstbucket'):
                todo.append(x)
    b, k = getattr(t, '_firstbucket', None), 0
    while b is not None and k < 1000:
        out.append(b)
        b = b._next
        k += 1
    return out


def tree_set_native(P, ks, a):
    """replay of an E2 _BTree_set counterexample: the compiled family's BTree / TreeSet loaded with the template
    (every node a database record with a jar, as after a load), one call through the public API"""
    import gc
    from engine import shapes
    import BTrees.check

    def tup(x):
        return tuple(tup(i) for i in x) if isinstance(x, (list, tuple)) else x
    fam, tpl, op = P['family'], tup(P['tpl']), P['op']
    is_set = P.get('is_set', False)
    kind = 'TreeSet' if is_set else 'BTree'
    cl = shapes.classes(fam, 'c')
    shapes.set_sizes(cl, P.get('L', 2), P.get('I', 2))
    m = shapes.n_ranks(tpl)
    keys = [a['k%d' % i] for i in range(m)]
    vals = [a['w%d' % i] for i in range(m)]
    ctx = {'harness': 'tree_set_native', 'family': fam, 'op': op}
    types = (cl['BTree'], cl['Bucket'], cl['TreeSet'], cl['Set'])
    gc.collect()
    alive0 = sum(1 for o_ in gc.get_objects() if type(o_) in types)
    t = shapes.build_loaded(tpl, keys, cl, kind, lambda r: vals[r])
    stored = sorted(set(shapes.leaf_keys(tpl)))
    model = {keys[r]: vals[r] for r in stored}
    before = dict(model)
    jar = _Jar()
    nodes = _nodes(t)
    embedded = tpl[0] == 'T1'
    if P.get('stored', True):
        for i, n in enumerate(nodes):
            if embedded and n is not t:
                continue
            n._p_jar = jar
            n._p_oid = b'replay%02d' % i
    pre_state = {id(n): n.__getstate__() for n in nodes}
    n_, v_ = a['n'], a['v']
    oom = bool(P.get('oom'))
    cmod = None
    if oom:
        import importlib
        cmod = importlib.import_module('BTrees._%sBTree' % fam)
        if not hasattr(cmod, '_verif_fail_alloc_after'):
            raise RuntimeError('extension built without the BTREES_VERIF hook')
        cmod._verif_fail_alloc_after(a['fa'])
    try:
        if op == 'delete':
            try:
                if is_set:
                    t.remove(n_)
                else:
                    del t[n_]
                ok = True
            except KeyError:
                ok = False
            if ok != (n_ in model):
                fail('compiled tree delete: KeyError iff the key is absent is violated', ctx, keys, n_)
            model.pop(n_, None)
        elif op == 'insert':
            if is_set:
                t.insert(n_)
                model.setdefault(n_, None)
            else:
                t.insert(n_, v_)
                model.setdefault(n_, v_)
        else:
            if is_set:
                t.add(n_)
                model.setdefault(n_, None)
            else:
                t[n_] = v_
                model[n_] = v_
    except MemoryError:
        if not oom:
            fail('compiled tree %s raised MemoryError' % op, ctx, keys, n_)
        if cmod._verif_fail_alloc_after(-1) <= a['fa']:
            fail('MemoryError although no allocation was refused', ctx)
        oom = 'fired'
        got = list(t.keys()) if is_set else list(t.items())
        if got == (sorted(before) if is_set else sorted(before.items())):
            model = dict(before)
    except Exception as e:      # noqa
        fail('compiled tree %s raised %s on representable data' % (op, type(e).__name__), ctx, keys, n_)
    if oom is True and cmod._verif_fail_alloc_after(-1) > a['fa']:
        fail('an allocation was refused inside the call but no MemoryError reached the caller', ctx, keys, n_)
    # pins first: any later access to a node releases a forgotten pin again
    for n in nodes:
        if n._p_state == 2:
            fail('a node is left pinned (sticky) after %s returned' % op, ctx, keys, n_, type(n).__name__)
    got = list(t.keys()) if is_set else list(t.items())
    want = sorted(model) if is_set else sorted(model.items())
    if fam[0] in 'UQ':
        pass        # non-negative keys: natural order is the family order
    if got != want:
        fail('compiled tree contents differ from the sorted-map model after %s' % op, ctx, got, want)
    try:
        t._check()
        BTrees.check.check(t)
    except AssertionError as e:
        fail('the tree is damaged after %s: %s' % (op, e), ctx, keys, n_)
    now = _nodes(t)
    for n in now:
        if n._p_state not in (0, 1, None) and n._p_jar is not None:
            fail('a node is left pinned (persistence state %r) after %s' % (n._p_state, op), ctx, keys, n_)
    if P.get('stored', True):
        for n in now:
            if id(n) in pre_state and n._p_jar is jar and n.__getstate__() != pre_state[id(n)] and not n._p_changed:
                fail('a node whose stored state changed was not announced to the data manager', ctx, keys, n_, type(n).__name__)
        if embedded and before != model and not t._p_changed:
            fail('the root embedding its only leaf was not announced after a change', ctx, keys, n_)
    # latent damage: keep using the tree
    extra = [k for k in range(1, 400 if oom else 12) if k not in model][:(300 if oom else 8)]
    try:
        for k in extra:
            if is_set:
                t.add(k)
            else:
                t[k] = 1
            model[k] = 1
        list(t.keys())
        t._check()
        for k in list(model):
            if is_set:
                t.remove(k)
            else:
                del t[k]
        t._check()
        if len(t) or t.__getstate__() is not None:
            fail('the tree is not empty after deleting every key', ctx)
    except (AssertionError, KeyError, SystemError) as e:
        fail('the tree misbehaves in later use after %s: %s %s' % (op, type(e).__name__, e), ctx, keys, n_)
    del t, nodes, now, pre_state, n
    jar.registered.clear()
    gc.collect()
    alive1 = sum(1 for o_ in gc.get_objects() if type(o_) in types)
    if alive1 > alive0:
        fail('%d nodes of the tree stay alive after it was dropped (reference leak)' % (alive1 - alive0), ctx, keys, n_)


def tree_range_native(P, ks, a):
    """replay of an E2 BTree_findRangeEnd counterexample: the compiled family's BTree loaded with the template, range
    query with one bound through the public API (keys / minKey / maxKey)"""
    from engine import shapes

    def tup(x):
        return tuple(tup(i) for i in x) if isinstance(x, (list, tuple)) else x
    fam, tpl, low, ex = P['family'], tup(P['tpl']), P['low'], P['exclude']
    cl = shapes.classes(fam, 'c')
    shapes.set_sizes(cl, 2, 2)
    m = shapes.n_ranks(tpl)
    keys = [a['k%d' % i] for i in range(m)]
    t = shapes.build_loaded(tpl, keys, cl, 'BTree', lambda r: r + 1)
    stored = sorted(keys[r] for r in set(shapes.leaf_keys(tpl)))
    n = a['n']
    ctx = {'harness': 'tree_range_native', 'family': fam, 'low': low, 'exclude': ex}
    nodes = _nodes(t)
    if low:
        got = list(t.keys(n, None, bool(ex), False))
        want = [k for k in stored if (k > n if ex else k >= n)]
    else:
        got = list(t.keys(None, n, False, bool(ex)))
        want = [k for k in stored if (k < n if ex else k <= n)]
    if got != want:
        fail('compiled range search with one bound differs from the model', ctx, keys, n, got, want)
    if not ex:
        try:
            g2 = t.minKey(n) if low else t.maxKey(n)
        except ValueError:
            g2 = None
        w2 = (want[0] if low else want[-1]) if want else None
        if g2 != w2:
            fail('compiled minKey/maxKey with a bound differs from the model', ctx, keys, n, g2, w2)
    for nd in nodes:
        if nd._p_state == 2:
            fail('a node is left pinned after a range search', ctx)
