"""Concrete replay of an E2 counterexample: the natively compiled kernel
(harness/kernels/verif_kernels.c = the real sorters.c + one-line wrappers) is
called through ctypes on the solver's words."""
import tempfile

from harness.common import fail


def k_native(P, ks, a):
    from engine import llsym_run
    d = tempfile.mkdtemp(prefix='btvk.')
    try:
        K = llsym_run.build(P['family'], d)
        n = P['n']
        xs = [a['x%d' % i] for i in range(n)]
        kernel = P['kernel']
        w = K['ks'] * 8
        key = (lambda v: v) if K['signed'] else (lambda v: v & ((1 << w) - 1))
        r, out = llsym_run.native(K, kernel, xs)
        ctx = {'harness': 'k_native', 'family': P['family'], 'kernel': kernel}
        if kernel == 'quicksort':
            if sorted(out, key=key) != out or sorted(out) != sorted(xs):
                fail('quicksort output is not the sorted permutation of its input', ctx, xs, out)
        else:
            got = out[:r]
            want = sorted(set(xs), key=key)
            if kernel in ('uniq', 'uniq_copy') and sorted(xs, key=key) != xs:
                return
            if got != want:
                fail('%s output is not the strictly ascending set of its input' % kernel, ctx, xs, got, want)
    finally:
        import shutil
        shutil.rmtree(d, ignore_errors=True)


def conv_native(P, ks, a):
    """replay of an E2 conversion counterexample through the public API of the compiled family"""
    from engine import shapes
    fam, which = P['family'], P['which']
    cl = shapes.classes(fam, 'c')
    n = a['n'] if a['is_int'] else 'not-an-int'
    ch = fam[0] if which == 'key' else fam[1]
    bits, signed = {'I': (32, True), 'U': (32, False), 'L': (64, True), 'Q': (64, False)}[ch]
    lo, hi = (-(1 << (bits - 1)), (1 << (bits - 1)) - 1) if signed else (0, (1 << bits) - 1)
    ok = a['is_int'] and lo <= a['n'] <= hi
    b = cl['Bucket']()
    ctx = {'harness': 'conv_native', 'family': fam, 'which': which}
    try:
        if which == 'key':
            b[n] = 1
            back = list(b.keys())
        else:
            b[1] = n
            back = list(b.values())
        exc = None
    except TypeError:
        exc, back = 'TypeError', list(b.keys())
    except Exception as e:      # noqa
        exc, back = type(e).__name__, None
    if ok and (exc is not None or back != [a['n']]):
        fail('a representable integer was rejected or changed by the compiled conversion', ctx, exc, back)
    if not ok and (exc != 'TypeError' or back):
        fail('an unrepresentable argument was not rejected with TypeError by the compiled conversion', ctx, exc, back)


def leaf_native(P, ks, a):
    """replay of an E2 leaf-kernel counterexample through the public API of the compiled family's Bucket"""
    from engine import shapes
    fam, n = P['family'], P['n']
    cl = shapes.classes(fam, 'c')
    keys = [a['k%d' % i] for i in range(n)]
    arg = a['n']
    b = cl['Bucket']()
    b.__setstate__((tuple(x for i, k in enumerate(keys) for x in (k, i + 1)),))
    ctx = {'harness': 'leaf_native', 'family': fam, 'kernel': P['kernel']}
    st0 = b._p_state
    if P['kernel'] == 'leaf_get':
        want = dict(zip(keys, range(1, n + 1))).get(arg, 'absent')
        try:
            got = b.get(arg, 'absent') if P['has_key'] == 0 else (arg in b)
        except Exception as e:      # noqa
            got = type(e).__name__
        exp = want if P['has_key'] == 0 else (want != 'absent')
        if got != exp:
            fail('compiled leaf lookup differs from the sorted-map model', ctx, keys, arg, got, exp)
    else:
        low, ex = P['low'], P['exclude']
        try:
            got = list(b.keys(arg, None, bool(ex), False)) if low else list(b.keys(None, arg, False, bool(ex)))
        except Exception as e:      # noqa
            got = type(e).__name__
        try:
            if low:
                exp = [k for k in keys if (k > arg if ex else k >= arg)]
            else:
                exp = [k for k in keys if (k < arg if ex else k <= arg)]
        except TypeError:
            exp = got
        if not isinstance(arg, int) or abs(arg) >= 2 ** 64:
            exp = got if isinstance(got, str) else exp
        if got != exp:
            fail('compiled leaf range end differs from the model', ctx, keys, arg, got, exp)
    if b._p_state != st0:
        fail('the leaf is left in another persistence state (pin not released)', ctx, st0, b._p_state)


def leaf_set_native(P, ks, a):
    """replay of an E2 _bucket_set counterexample through the compiled Bucket's public API"""
    from engine import shapes
    fam, n, op = P['family'], P['n'], P['op']
    cl = shapes.classes(fam, 'c')
    keys = [a['k%d' % i] for i in range(n)]
    vals = [a['w%d' % i] for i in range(n)]
    b = cl['Bucket']()
    b.__setstate__((tuple(x for k, v in zip(keys, vals) for x in (k, v)),))
    model = dict(zip(keys, vals))
    ctx = {'harness': 'leaf_set_native', 'family': fam, 'op': op}
    b._p_changed = False
    st0 = b._p_state
    try:
        if op == 'set':
            b[a['n']] = a['v']
            model[a['n']] = a['v']
        elif op == 'insert':
            b.setdefault(a['n'], a['v'])
            model.setdefault(a['n'], a['v'])
        else:
            try:
                del b[a['n']]
                ok = True
            except KeyError:
                ok = False
            if ok != (a['n'] in model):
                fail('compiled leaf delete: KeyError iff the key is absent is violated', ctx)
            model.pop(a['n'], None)
    except Exception as e:      # noqa
        fail('compiled leaf %s raised %s on representable data' % (op, type(e).__name__), ctx)
    got = list(b.items())
    if got != sorted(model.items()):
        fail('compiled leaf contents differ from the sorted-map model after %s' % op, ctx, got, sorted(model.items()))
    changed = sorted(model.items()) != sorted(zip(keys, vals))
    if bool(b._p_changed) != changed and b._p_jar is not None:
        fail('change notification differs from "modified"', ctx)


def tree_native(P, ks, a):
    """replay of an E2 _BTree_get counterexample: the compiled family's BTree, loaded with the template"""
    from engine import shapes

    def tup(x):
        return tuple(tup(i) for i in x) if isinstance(x, (list, tuple)) else x
    fam, tpl = P['family'], tup(P['tpl'])
    cl = shapes.classes(fam, 'c')
    m = shapes.n_ranks(tpl)
    keys = [a['k%d' % i] for i in range(m)]
    t = shapes.build_loaded(tpl, keys, cl, 'BTree', lambda r: r + 1)
    stored = {keys[r]: r + 1 for r in set(shapes.leaf_keys(tpl))}
    ctx = {'harness': 'tree_native', 'family': fam}
    n = a['n']
    got = t.get(n, 'absent') if P['has_key'] == 0 else (n in t)
    exp = stored.get(n, 'absent') if P['has_key'] == 0 else (n in stored)
    if got != exp:
        fail('compiled tree lookup differs from the sorted-map model', ctx, keys, n, got, exp)
