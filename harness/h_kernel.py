"""Concrete replay of an E2 counterexample: the natively compiled kernel
(harness/kernels/verif_kernels.c = the real sorters.c + one-line wrappers) is
called through ctypes on the solver's words."""
import tempfile

from harness.common import fail


def k_native(P, ks, a):
    from engine import llsym_run
    d = tempfile.mkdtemp(prefix='btvk.')
    try:
        K = llsym_run.build(P['family'], d)
        n = P['n']
        xs = [a['x%d' % i] for i in range(n)]
        kernel = P['kernel']
        w = K['ks'] * 8
        key = (lambda v: v) if K['signed'] else (lambda v: v & ((1 << w) - 1))
        r, out = llsym_run.native(K, kernel, xs)
        ctx = {'harness': 'k_native', 'family': P['family'], 'kernel': kernel}
        if kernel == 'quicksort':
            if sorted(out, key=key) != out or sorted(out) != sorted(xs):
                fail('quicksort output is not the sorted permutation of its input', ctx, xs, out)
        else:
            got = out[:r]
            want = sorted(set(xs), key=key)
            if kernel in ('uniq', 'uniq_copy') and sorted(xs, key=key) != xs:
                return
            if got != want:
                fail('%s output is not the strictly ascending set of its input' % kernel, ctx, xs, got, want)
    finally:
        import shutil
        shutil.rmtree(d, ignore_errors=True)


def conv_native(P, ks, a):
    """replay of an E2 conversion counterexample through the public API of the compiled family"""
    from engine import shapes
    fam, which = P['family'], P['which']
    cl = shapes.classes(fam, 'c')
    n = a['n'] if a['is_int'] else 'not-an-int'
    ch = fam[0] if which == 'key' else fam[1]
    bits, signed = {'I': (32, True), 'U': (32, False), 'L': (64, True), 'Q': (64, False)}[ch]
    lo, hi = (-(1 << (bits - 1)), (1 << (bits - 1)) - 1) if signed else (0, (1 << bits) - 1)
    ok = a['is_int'] and lo <= a['n'] <= hi
    b = cl['Bucket']()
    ctx = {'harness': 'conv_native', 'family': fam, 'which': which}
    try:
        if which == 'key':
            b[n] = 1
            back = list(b.keys())
        else:
            b[1] = n
            back = list(b.values())
        exc = None
    except TypeError:
        exc, back = 'TypeError', list(b.keys())
    except Exception as e:      # noqa
        exc, back = type(e).__name__, None
    if ok and (exc is not None or back != [a['n']]):
        fail('a representable integer was rejected or changed by the compiled conversion', ctx, exc, back)
    if not ok and (exc != 'TypeError' or back):
        fail('an unrepresentable argument was not rejected with TypeError by the compiled conversion', ctx, exc, back)
