#!/bin/bash
# like verify_seed.sh, for changes whose demo needs the BTREES_VERIF hook build (tests run on a normal build)
WT=$1; X=$2; DEST=$3
cd $WT || exit 2
git checkout -q -- . ; git apply --check patch_$X.diff || { echo "patch does not apply"; exit 2; }
git apply patch_$X.diff
/venv/bin/python setup.py build_ext -i -j 16 --force > build.log 2>&1 || { echo BUILD-FAIL; git checkout -q -- .; exit 2; }
T=$(PYTHONPATH=$WT/src /venv/bin/python -m pytest -q -p no:cacheprovider --timeout=900 2>&1 | tail -1)
BTREES_VERIF=1 /venv/bin/python setup.py build_ext -i -j 16 --force > build.log 2>&1
PYTHONPATH=$WT/src timeout 600 /venv/bin/python demo_$X.py > demo_with.log 2>&1; RW=$?
git checkout -q -- .
BTREES_VERIF=1 /venv/bin/python setup.py build_ext -i -j 16 --force > build.log 2>&1
PYTHONPATH=$WT/src timeout 600 /venv/bin/python demo_$X.py > demo_without.log 2>&1; RO=$?
echo "$WT $X tests(normal build): $T | demo(hook build) with change rc=$RW | without rc=$RO"
if [[ "$T" == *"1468 passed"* && "$T" != *failed* && $RW -ne 0 && $RO -eq 0 ]]; then
  mkdir -p $DEST; cp patch_$X.diff $DEST/patch.diff; cp demo_$X.py $DEST/demo.py; cp notes_$X.md $DEST/notes.md
  tail -5 demo_with.log > $DEST/demo_with_change.tail.txt
  echo "$T" > $DEST/testsuite_with_change.txt
  echo CONFIRMED
else echo REJECTED; fi
