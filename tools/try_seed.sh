#!/bin/bash
# try_seed.sh <worktree> <patch> <check> [args...]: apply a patch in a scratch worktree and run one check against it
WT=$1; PATCH=$2; P=$3; shift 3
cd /verif
git -C $WT checkout -q -- . ; git -C $WT apply $PATCH || { echo APPLY-FAILED; exit 2; }
VERIF_FAILFAST=${VERIF_FAILFAST-1} VERIF_REPO=$WT timeout 3000 ./check $P --no-evidence "$@"; rc=$?
git -C $WT checkout -q -- .
echo "rc=$rc"
