#!/bin/bash
# run_seed.sh <seed-name> <property> [extra check args]: apply a seeded change to /repo, run one check (no evidence), undo
S=$1; P=$2; shift 2
cd /verif
git -C /repo diff --quiet || { echo "/repo dirty"; exit 2; }
git -C /repo apply /verif/seeded/$S/patch.diff || exit 2
./check $P --no-evidence "$@" > /tmp/seedrun_${S}_$P.log 2>&1; rc=$?
git -C /repo checkout -- .
echo "seed=$S check=$P rc=$rc $(grep -c '^VIOLATION' /tmp/seedrun_${S}_$P.log) violations; $(grep -c HARNESS-ERROR /tmp/seedrun_${S}_$P.log) harness-errors; $(tail -1 /tmp/seedrun_${S}_$P.log)"
