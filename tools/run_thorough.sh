#!/bin/bash
# run_thorough.sh <id...>: run thorough tiers one after the other (sizing / false-alarm check); logs in /tmp/thorough_<id>.log
cd /verif
for P in "$@"; do
  s=$(date +%s)
  timeout ${THOROUGH_TIMEOUT:-5400} ./check $P --thorough --no-evidence > /tmp/thorough_$P.log 2>&1; rc=$?
  echo "thorough $P rc=$rc $(( $(date +%s) - s ))s | $(tail -1 /tmp/thorough_$P.log)" >> /tmp/thorough_summary.log
done
