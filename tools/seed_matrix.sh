#!/bin/bash
# seed_matrix.sh [seed...]: run each seeded change against the check of the property it breaks, in a scratch
# worktree of /repo (so /repo itself is never modified); writes /tmp/seed_matrix.log.  VERIF_FAILFAST=1 (default
# here): stop a check at its first failing obligation (set VERIF_FAILFAST= for complete runs)
WT=/tmp/repo_seedmx
cd /verif
git -C /repo worktree remove --force $WT 2>/dev/null
git -C /repo worktree add --detach $WT HEAD >/dev/null 2>&1 || exit 2
SEEDS="$@"; [ -z "$SEEDS" ] && SEEDS=$(ls seeded)
for S in $SEEDS; do
  P=${S:0:3}
  git -C $WT checkout -q -- . ; git -C $WT apply /verif/seeded/$S/patch.diff || { echo "seed=$S APPLY-FAILED"; continue; }
  VERIF_FAILFAST=${VERIF_FAILFAST-1} VERIF_REPO=$WT timeout 3000 ./check $P --no-evidence > /tmp/seedmx_$S.log 2>&1; rc=$?
  echo "seed=$S check=$P rc=$rc violations=$(grep -c '^VIOLATION' /tmp/seedmx_$S.log) harness_errors=$(grep -c HARNESS-ERROR /tmp/seedmx_$S.log) | $(tail -1 /tmp/seedmx_$S.log)"
done
git -C /repo worktree remove --force $WT
