#!/bin/bash
# setup_cmd: overlay venv over /venv with crosshair-tool + z3 from the offline wheelhouse.
# Idempotent; also invoked by ./check when .venv is missing.
set -e
cd "$(dirname "$0")"
V=.venv
if [ ! -x $V/bin/python ] || ! $V/bin/python -c "import crosshair, z3" 2>/dev/null; then
  rm -rf $V
  /venv/bin/python -m venv $V
  SP=$($V/bin/python -c "import site; print(site.getsitepackages()[0])")
  printf "/venv/lib/python3.12/site-packages\n" > $SP/overlay.pth
  PIP_NO_INDEX=1 $V/bin/pip install -q --no-index --find-links /opt/veriftools/wheels crosshair-tool z3-solver >/dev/null
fi
$V/bin/python -c "import crosshair, z3, persistent; print('setup ok: crosshair', crosshair.__version__ if hasattr(crosshair,'__version__') else '', 'z3', z3.get_version_string())"
