import z3, time
n = z3.Int('n')
LONG_MIN, LONG_MAX = -2**63, 2**63-1
# stub: r = PyLong_AsLong(n): if in range r == n else r == -1 & overflow
ovf = z3.Or(n < LONG_MIN, n > LONG_MAX)
r = z3.BitVec('r', 64)
s = z3.Solver()
s.add(z3.Implies(z3.Not(ovf), z3.BV2Int(r, is_signed=True) == n))
s.add(z3.Implies(ovf, r == z3.BitVecVal(-1 & (2**64-1), 64)))
# code: if ovf -> fail; elif (int)vcopy != vcopy -> fail; else target = trunc
t32 = z3.Extract(31, 0, r)
ok = z3.And(z3.Not(ovf), z3.SignExt(32, t32) == r)
# property: ok <=> -2^31 <= n < 2^31 ; ok => BV2Int(t32, signed) == n
prop = z3.And(ok == z3.And(n >= -2**31, n < 2**31), z3.Implies(ok, z3.BV2Int(t32, is_signed=True) == n))
s.add(z3.Not(prop))
t0 = time.time(); print(s.check(), time.time() - t0)
# unsigned variant: (vcopy<0) fail; (unsigned int)vcopy != vcopy fail
s2 = z3.Solver()
s2.add(z3.Implies(z3.Not(ovf), z3.BV2Int(r, is_signed=True) == n))
s2.add(z3.Implies(ovf, r == z3.BitVecVal(2**64-1, 64)))
ok2 = z3.And(z3.Not(ovf), z3.Not(r < 0), z3.ZeroExt(32, t32) == r)
prop2 = z3.And(ok2 == z3.And(n >= 0, n < 2**32), z3.Implies(ok2, z3.BV2Int(t32, is_signed=False) == n))
s2.add(z3.Not(prop2))
t0 = time.time(); print(s2.check(), time.time() - t0)
