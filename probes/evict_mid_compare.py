from minidb_sketch import *
from BTrees.OOBTree import OOBTree, OOBTreePy
HOOK = {'n': -1, 'cnt': 0, 'jar': None}
class K:
    __slots__ = ('v',)
    def __init__(self, v): self.v = v
    def _tick(self):
        HOOK['cnt'] += 1
        if HOOK['cnt'] == HOOK['n'] and HOOK['jar'] is not None:
            HOOK['jar'].cache.minimize()
    def __lt__(self, o): self._tick(); return self.v < o.v
    def __gt__(self, o): self._tick(); return self.v > o.v
    def __eq__(self, o): self._tick(); return isinstance(o, K) and self.v == o.v
    def __hash__(self): return 0
    def __repr__(self): return 'K(%r)' % (self.v,)
for cls in (OOBTree, OOBTreePy):
    cls.max_leaf_size = 2; cls.max_internal_size = 2
    for n in range(0, 12):
        st = Storage(); jar = Jar(st)
        t = cls(); root = jar.add_root(t)
        ks = [K(i) for i in range(8)]
        for k in ks: t[k] = k.v
        jar.commit()
        j2 = Jar(st); t2 = j2.get(root)
        HOOK.update(n=n, cnt=0, jar=j2)
        try:
            t2[K(3.5)] = 'new'
            del t2[K(0)]
            r = 'ok'
        except Exception as e:
            r = repr(e)
        HOOK['jar'] = None
        j2.commit()
        j3 = Jar(st); t3 = j3.get(root)
        got = [(k.v, v) for k, v in t3.items()]
        want = [(i, i) for i in range(1, 8)]; want.insert(3, (3.5, 'new'))
        states = sorted(set(o._p_state for o in [j2.get(oid) for oid in list(st.data)]))
        print(cls.__name__, n, r, got == want, 'states', states)
