from BTrees.OOBTree import OOSet, OOTreeSet
from merge_refcnt_realize import K
def xor_c(a: int, b: int, c: int, d: int) -> bool:
    """
    pre: a < b and c < d
    post: _
    """
    s1 = OOSet([K(a), K(b)]); s2 = OOTreeSet([K(c), K(d)])
    r = [k.v for k in (s1 ^ s2)]
    want = [v for v in (a, b) if v != c and v != d] + [v for v in (c, d) if v != a and v != b]
    out = []
    for v in want:
        i = 0
        while i < len(out) and out[i] < v: i += 1
        out.insert(i, v)
    return r == out
