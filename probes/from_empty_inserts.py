from typing import List, Tuple
from BTrees.OOBTree import OOBTreePy, OOBTree

class TP(OOBTreePy):
    max_leaf_size = 2
    max_internal_size = 2

class TC(OOBTree):
    max_leaf_size = 2
    max_internal_size = 2

def model_set(m, k, v):
    for i in range(len(m)):
        if m[i][0] == k:
            m[i] = (k, v)
            return
        if k < m[i][0]:
            m.insert(i, (k, v))
            return
    m.append((k, v))

def _run(cls, keys):
    t = cls()
    model = []
    for i, k in enumerate(keys):
        t[k] = i
        model_set(model, k, i)
    return list(t.items()), model

def py3(a: int, b: int, c: int) -> bool:
    """
    post: _
    """
    x, y = _run(TP, [a, b, c])
    return x == y

def c3(a: int, b: int, c: int) -> bool:
    """
    post: _
    """
    x, y = _run(TC, [a, b, c])
    return x == y

def c3_twin(a: int, b: int, c: int) -> bool:
    """
    post: _
    """
    x, y = _run(TC, [a, b, c])
    return not (len(x) == 3 and x[0][0] == 17 and x[1][0] == 23)

def c5(a: int, b: int, c: int, d: int, e: int) -> bool:
    """
    post: _
    """
    x, y = _run(TC, [a, b, c, d, e])
    return x == y

def py5(a: int, b: int, c: int, d: int, e: int) -> bool:
    """
    post: _
    """
    x, y = _run(TP, [a, b, c, d, e])
    return x == y
