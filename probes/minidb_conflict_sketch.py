"""mini db with conflict detection + resolution (probe for C08)."""
from persistent import Persistent, PickleCache
from BTrees.Interfaces import BTreesConflictError

class Ref:
    __slots__ = ('oid', 'cls')
    def __init__(self, oid, cls): self.oid = oid; self.cls = cls

class ConflictError(Exception): pass
class ReadConflictError(ConflictError): pass

class Storage:
    def __init__(self):
        self.data = {}      # oid -> list of (serial, cls, state)
        self.next = 1; self.tid = 0
    def new_oid(self):
        o = self.next; self.next += 1; return o.to_bytes(8, 'big')
    def load(self, oid):
        s, c, st = self.data[oid][-1]; return c, st, s
    def load_serial(self, oid, serial):
        for s, c, st in self.data[oid]:
            if s == serial: return c, st
        raise KeyError

def walk_out(x, jar, new):
    if isinstance(x, tuple): return tuple(walk_out(i, jar, new) for i in x)
    if isinstance(x, Persistent):
        if x._p_oid is None:
            x._p_jar = jar; x._p_oid = jar.storage.new_oid(); jar.cache[x._p_oid] = x; new.append(x)
        return Ref(x._p_oid, type(x))
    return x

def resolve_view(x, table):
    # states as conflict resolution sees them: one Ref instance per oid per resolution
    if isinstance(x, tuple): return tuple(resolve_view(i, table) for i in x)
    if isinstance(x, Ref): return table.setdefault(x.oid, x)
    return x

class Jar:
    def __init__(self, storage):
        self.storage = storage; self.cache = PickleCache(self, 100000)
        self.registered = []; self.readcurrent = {}; self.log = []
    def register(self, obj):
        if not any(o is obj for o in self.registered): self.registered.append(obj)
        self.log.append(('register', obj._p_oid))
    def readCurrent(self, obj):
        if obj._p_serial != b'\0' * 8:   # ZODB ignores new (never stored) objects
            self.readcurrent[obj._p_oid] = obj._p_serial
        self.log.append(('readCurrent', obj._p_oid))
    def setstate(self, obj):
        cls, state, serial = self.storage.load(obj._p_oid)
        obj.__setstate__(self.walk_in(state)); obj._p_serial = serial
    def walk_in(self, x):
        if isinstance(x, tuple): return tuple(self.walk_in(i) for i in x)
        if isinstance(x, Ref): return self.get(x.oid, x.cls)
        return x
    def get(self, oid, cls=None):
        o = self.cache.get(oid)
        if o is not None: return o
        if cls is None: cls = self.storage.load(oid)[0]
        o = cls.__new__(cls); self.cache.new_ghost(oid, o); return o
    def add_root(self, obj):
        obj._p_jar = self; obj._p_oid = self.storage.new_oid(); self.cache[obj._p_oid] = obj
        self.registered.append(obj); return obj._p_oid
    def commit(self):
        st = self.storage
        # read-current verification
        for oid, serial in self.readcurrent.items():
            if st.data[oid][-1][0] != serial and not any(o._p_oid == oid for o in self.registered):
                raise ReadConflictError(oid)
        new_serial = (st.tid + 1).to_bytes(8, 'big')
        todo = list(self.registered); seen = []; writes = []
        while todo:
            obj = todo.pop()
            if any(o is obj for o in seen): continue
            seen.append(obj)
            new = []
            state = walk_out(obj.__getstate__(), self, new)
            oid = obj._p_oid
            if oid in st.data and st.data[oid][-1][0] != obj._p_serial:
                # conflict: try to resolve
                table = {}
                old = resolve_view(st.load_serial(oid, obj._p_serial)[1], table)
                com = resolve_view(st.data[oid][-1][2], table)
                mine = resolve_view(state, table)
                inst = type(obj).__new__(type(obj))
                try:
                    state = inst._p_resolveConflict(old, com, mine)
                except BTreesConflictError as e:
                    raise ConflictError(oid, e.reason)
            writes.append((oid, type(obj), state))
            todo.extend(new)
        st.tid += 1
        for oid, cls, state in writes:
            st.data.setdefault(oid, []).append((new_serial, cls, state))
        for obj in seen:
            obj._p_changed = False; obj._p_serial = new_serial
        # resolved objects: in-memory state is stale; invalidate
        self.registered = []; self.readcurrent = {}
