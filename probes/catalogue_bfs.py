import sys, time
from BTrees.OOBTree import OOBTree, OOBTreePy, OOBucket, OOBucketPy
def sig(t, bucket_types):
    """shape signature: nested structure w/ keys replaced by rank among all distinct values (keys + separators)"""
    vals = set()
    def collect(node):
        st = node.__getstate__()
        if st is None: return ('E',)
        if isinstance(node, bucket_types):
            ks = st[0][::2]
            vals.update(ks); return ('B', tuple(ks))
        if len(st) == 1:
            ks = st[0][0][0][::2]; vals.update(ks); return ('T1', tuple(ks))
        data = st[0]
        kids = []
        for i, x in enumerate(data):
            if i % 2: vals.add(x); kids.append(('K', x))
            else: kids.append(collect(x))
        return ('T', tuple(kids))
    s = collect(t)
    rank = {v: i for i, v in enumerate(sorted(vals))}
    def rk(x):
        if x[0] in ('B', 'T1'): return (x[0], tuple(rank[k] for k in x[1]))
        if x[0] == 'K': return ('K', rank[x[1]])
        if x[0] == 'E': return x
        return ('T', tuple(rk(c) for c in x[1]))
    return rk(s)
def build(cls, hist):
    t = cls()
    for op, k in hist:
        if op == 'i': t[k] = 1
        else: del t[k]
    return t
def bfs(cls, btypes, N, L, I, maxdepth, cap):
    cls.max_leaf_size = L; cls.max_internal_size = I
    seen = {}
    frontier = [()]
    seen[('E',)] = ()
    depth = 0
    t0 = time.time()
    while frontier and depth < maxdepth and len(seen) < cap:
        nxt = []
        for h in frontier:
            present = set()
            for op, k in h:
                (present.add if op == 'i' else present.discard)(k)
            for k in range(N):
                h2 = h + ((('d', k),) if k in present else (('i', k),))
                t = build(cls, h2)
                s = sig(t, btypes)
                if s not in seen:
                    seen[s] = h2; nxt.append(h2)
        frontier = nxt; depth += 1
        print(cls.__name__, 'N', N, 'L', L, 'I', I, 'depth', depth, 'shapes', len(seen), 'frontier', len(frontier), '%.1fs' % (time.time() - t0)); sys.stdout.flush()
    return seen
for N in (6, 8):
    c = bfs(OOBTree, (OOBucket,), N, 2, 2, 14, 5000)
p = bfs(OOBTreePy, (OOBucketPy,), 6, 2, 2, 14, 5000)
c = bfs(OOBTree, (OOBucket,), 6, 2, 2, 14, 5000)
print('C == Py shape sets (N=6):', set(c) == set(p))
def height(s):
    return 0 if s[0] in ('B','T1','E','K') else 1 + max(height(x) for x in s[1])
import collections
print(collections.Counter(height(s) for s in c))
