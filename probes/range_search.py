from typing import Optional
from one_step_from_state import K, build, OOBTree, OOBucket, OOBTreePy, OOBucketPy

def rng(tree_cls, bucket_cls, a, b, c, d, e, f, lo, hi, xlo, xhi):
    ks = [K(a), K(b), K(c), K(d), K(e), K(f)]
    t = build(tree_cls, bucket_cls, ks)
    vals = [a, b, c, d, e, f]
    got = [k.v for k in t.keys(None if lo is None else K(lo), None if hi is None else K(hi), xlo, xhi)]
    want = list(vals)
    if lo is None:
        if xlo: want = want[1:]
    else:
        want = [v for v in want if (v > lo if xlo else v >= lo)]
    if hi is None:
        if xhi: want = want[:-1]
    else:
        want = [v for v in want if (v < hi if xhi else v <= hi)]
    return got == want

def c_rng(a: int, b: int, c: int, d: int, e: int, f: int, lo: Optional[int], hi: Optional[int], xlo: bool, xhi: bool) -> bool:
    """
    pre: a < b < c < d < e < f
    post: _
    """
    return rng(OOBTree, OOBucket, a, b, c, d, e, f, lo, hi, xlo, xhi)

def py_rng(a: int, b: int, c: int, d: int, e: int, f: int, lo: Optional[int], hi: Optional[int], xlo: bool, xhi: bool) -> bool:
    """
    pre: a < b < c < d < e < f
    post: _
    """
    return rng(OOBTreePy, OOBucketPy, a, b, c, d, e, f, lo, hi, xlo, xhi)
