"""Minimal LLVM-IR symbolic interpreter probe: runs @uniq from the real family IR on n symbolic words."""
import re, sys, time, z3

def parse_function(path, name):
    src = open(path).read()
    m = re.search(r'^define [^\n]*@%s\((.*?)\)[^\n]*\{\n(.*?)^\}' % re.escape(name), src, re.S | re.M)
    params = [p.strip().split()[-1] for p in m.group(1).split(',')]
    blocks = {}; order = []; cur = None
    # first block label is implicit: number = len(params)
    cur = '%' + str(len(params)) if all(p[1:].isdigit() for p in params) else 'entry'
    blocks[cur] = []; order.append(cur)
    for line in m.group(2).split('\n'):
        line = line.split(' ; ')[0].rstrip() if not line.startswith(' ') else line.rstrip()
        if not line.strip(): continue
        lm = re.match(r'^([A-Za-z0-9_.]+):', line)
        if lm:
            cur = '%' + lm.group(1); blocks[cur] = []; order.append(cur); continue
        blocks[cur].append(re.sub(r',? ![a-z.]+ !\d+', '', line.strip()))
    return params, blocks, order[0]

class Path:
    def __init__(self, solver_assumps, env, mem, block, prev):
        self.pc = solver_assumps; self.env = env; self.mem = mem; self.block = block; self.prev = prev

def bits(t): return int(t[1:]) if t.startswith('i') and t[1:].isdigit() else 64
def val(env, tok, t='i64'):
    tok = tok.strip()
    if tok.startswith('%'): return env[tok]
    if tok == 'null': return z3.BitVecVal(0, 64)
    if tok in ('true', 'false'): return z3.BitVecVal(1 if tok == 'true' else 0, 1)
    return z3.BitVecVal(int(tok), bits(t))

def run(path, name, args, mem0, check_final, max_paths=10000):
    params, blocks, entry = parse_function(path, name)
    base = z3.Solver()
    stats = {'paths': 0, 'queries': 0, 'instr': 0}
    results = []
    work = [Path([], dict(zip(params, args)), dict(mem0), entry, None)]
    def feasible(pc, c):
        stats['queries'] += 1
        base.push(); base.add(*pc); base.add(c); r = base.check(); base.pop(); return r == z3.sat
    def conc(x):
        x = z3.simplify(x)
        assert z3.is_bv_value(x), 'symbolic pointer/size: %s' % x
        return x.as_long()
    while work:
        p = work.pop()
        env, mem = p.env, p.mem
        while True:
            nxt = None
            for ins in blocks[p.block]:
                stats['instr'] += 1
                m = re.match(r'(%[\w.]+) = phi (\S+) (.*)', ins)
                if m:
                    for v, b in re.findall(r'\[ ([^,]+), (%[\w.]+) \]', m.group(3)):
                        if b == p.prev: env[m.group(1)] = val(env, v, m.group(2)); break
                    else: raise Exception('phi: no incoming from %s in %s' % (p.prev, ins))
                    continue
                m = re.match(r'(%[\w.]+) = icmp (\w+) (\S+) ([^,]+), (.+)', ins)
                if m:
                    a, b = val(env, m.group(4), m.group(3)), val(env, m.group(5), m.group(3))
                    op = {'eq': lambda: a == b, 'ne': lambda: a != b, 'ugt': lambda: z3.UGT(a, b), 'ult': lambda: z3.ULT(a, b),
                          'uge': lambda: z3.UGE(a, b), 'ule': lambda: z3.ULE(a, b), 'sgt': lambda: a > b, 'slt': lambda: a < b,
                          'sge': lambda: a >= b, 'sle': lambda: a <= b}[m.group(2)]()
                    env[m.group(1)] = z3.If(op, z3.BitVecVal(1, 1), z3.BitVecVal(0, 1)); continue
                m = re.match(r'(%[\w.]+) = (add|sub|shl|ashr|lshr|and|or|xor|mul)(?: nuw| nsw| exact)* (\S+) ([^,]+), (.+)', ins)
                if m:
                    a, b = val(env, m.group(4), m.group(3)), val(env, m.group(5), m.group(3))
                    env[m.group(1)] = {'add': lambda: a + b, 'sub': lambda: a - b, 'shl': lambda: a << b, 'ashr': lambda: a >> b,
                                       'lshr': lambda: z3.LShR(a, b), 'and': lambda: a & b, 'or': lambda: a | b, 'xor': lambda: a ^ b, 'mul': lambda: a * b}[m.group(2)]()
                    continue
                m = re.match(r'(%[\w.]+) = getelementptr (?:inbounds )?(\S+), \S+ (%[\w.]+), i64 (.+)', ins)
                if m:
                    sz = bits(m.group(2)) // 8
                    env[m.group(1)] = env[m.group(3)] + val(env, m.group(4)) * sz; continue
                m = re.match(r'(%[\w.]+) = load (\S+), \S+ (%[\w.]+)', ins)
                if m:
                    a = conc(env[m.group(3)])
                    assert a in mem, 'load outside memory at %#x in %s' % (a, ins)
                    env[m.group(1)] = mem[a]; continue
                m = re.match(r'store (\S+) ([^,]+), \S+ (%[\w.]+)', ins)
                if m:
                    a = conc(env[m.group(3)])
                    assert a in mem, 'store outside memory at %#x' % a
                    mem[a] = val(env, m.group(2), m.group(1)); continue
                m = re.match(r'(%[\w.]+) = (bitcast|ptrtoint) \S+ (%[\w.]+) to', ins)
                if m: env[m.group(1)] = env[m.group(3)]; continue
                m = re.match(r'call void @llvm.memcpy[^(]*\(i8\* [^%]*(%[\w.]+), i8\* [^%]*(%[\w.]+), i64 (\S+), i1 false\)', ins)
                if m:
                    d, s_, n = conc(env[m.group(1)]), conc(env[m.group(2)]), conc(val(env, m.group(3)))
                    tmp = [mem[s_ + i] for i in range(0, n, 4)]
                    for i, v in enumerate(tmp): mem[d + 4 * i] = v
                    continue
                if ins.startswith('call void @__assert_fail'):
                    results.append(('ASSERT', list(p.pc))); nxt = 'dead'; break
                m = re.match(r'br i1 (%[\w.]+), label (%[\w.]+), label (%[\w.]+)', ins)
                if m:
                    c = z3.simplify(env[m.group(1)] == 1)
                    if z3.is_true(c): nxt = m.group(2)
                    elif z3.is_false(c): nxt = m.group(3)
                    else:
                        ft, ff = feasible(p.pc, c), feasible(p.pc, z3.Not(c))
                        if ft and ff:
                            work.append(Path(p.pc + [z3.Not(c)], dict(env), dict(mem), m.group(3), p.block))
                            p.pc = p.pc + [c]; nxt = m.group(2)
                        elif ft: nxt = m.group(2)
                        else: nxt = m.group(3)
                    break
                m = re.match(r'br label (%[\w.]+)', ins)
                if m: nxt = m.group(1); break
                m = re.match(r'ret (\S+) (.+)', ins)
                if m:
                    stats['paths'] += 1
                    results.append(('RET', list(p.pc), val(env, m.group(2), m.group(1)), dict(mem))); nxt = 'dead'; break
                if ins == 'unreachable': nxt = 'dead'; break
                raise Exception('unsupported: ' + ins)
            if nxt == 'dead': break
            p.prev, p.block = p.block, nxt
    return results, stats

if __name__ == '__main__':
    ll, n, unsigned = sys.argv[1], int(sys.argv[2]), sys.argv[3] == 'u'
    t0 = time.time()
    IN, OUT = 0x10000, 0x10000   # uniq(p, p, n) in place, as sort_int_nodups calls it
    xs = [z3.BitVec('x%d' % i, 32) for i in range(n)]
    mem = {IN + 4 * i: xs[i] for i in range(n)}
    le = z3.ULE if unsigned else (lambda a, b: a <= b)
    lt = z3.ULT if unsigned else (lambda a, b: a < b)
    pre = [le(xs[i], xs[i + 1]) for i in range(n - 1)]
    res, stats = run(ll, 'uniq', [z3.BitVecVal(OUT, 64), z3.BitVecVal(IN, 64), z3.BitVecVal(n, 64)], mem, None)
    s = z3.Solver(); bad = 0; q = 0
    for r in res:
        if r[0] == 'ASSERT':
            s.push(); s.add(*pre); s.add(*r[1]); q += 1
            if s.check() == z3.sat: bad += 1; print('assert reachable', s.model())
            s.pop(); continue
        _, pc, ret, m = r
        s.push(); s.add(*pre); s.add(*pc); q += 1
        if s.check() != z3.sat: s.pop(); continue
        k = z3.simplify(ret); assert z3.is_bv_value(k); k = k.as_long()
        out = [m[OUT + 4 * i] for i in range(k)]
        post = z3.And(*([lt(out[i], out[i + 1]) for i in range(k - 1)] +
                        [z3.Or(*[x == o for o in out]) for x in xs] + [z3.Or(*[o == x for x in xs]) for o in out]))
        q += 1
        if s.check(z3.Not(post)) != z3.unsat: bad += 1; print('VIOLATION', s.model())
        s.pop()
    print('uniq n=%d %s: returns=%d paths, branch queries=%d, final queries=%d, instr=%d, bad=%d, %.1fs' % (
        n, 'unsigned' if unsigned else 'signed', stats['paths'], stats['queries'], q, stats['instr'], bad, time.time() - t0))
