import time, z3
from crosshair.core_and_libs import analyze_function, run_checkables, MessageType, AnalysisKind
from crosshair.options import AnalysisOptionSet
from crosshair.options import DEFAULT_OPTIONS
import one_step_from_state as p4
n = {'check': 0, 't': 0.0}
orig = z3.Solver.check
def counted(self, *a):
    t0 = time.time(); r = orig(self, *a); n['t'] += time.time() - t0; n['check'] += 1; return r
z3.Solver.check = counted
opts = AnalysisOptionSet(per_condition_timeout=120, per_path_timeout=20, report_all=True, analysis_kind=[AnalysisKind.PEP316])
t0 = time.time()
msgs = list(run_checkables(analyze_function(p4.c_step, opts)))
print(time.time() - t0)
for m in msgs:
    print(m.state, m.message, m.filename, m.line)
    print(m)
print(n)
