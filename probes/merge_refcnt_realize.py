import sys, operator
from BTrees.OOBTree import OOBucket, OOBucketPy, OOSet, OOSetPy
from BTrees.Interfaces import BTreesConflictError

class K:
    __slots__ = ('v',)
    def __init__(self, v): self.v = v
    def __lt__(self, o): return self.v < o.v
    def __gt__(self, o): return self.v > o.v
    def __le__(self, o): return self.v <= o.v
    def __ge__(self, o): return self.v >= o.v
    def __eq__(self, o): return isinstance(o, K) and self.v == o.v
    def __ne__(self, o): return not (isinstance(o, K) and self.v == o.v)
    def __hash__(self): return 0
    def __repr__(self): return 'K(%r)' % (self.v,)

def spec(old, com, new):
    """declarative 3-way merge over lists of (k:int, v:int) sorted by k. returns list or None (refuse)"""
    def find(lst, k):
        for kk, vv in lst:
            if kk == k: return vv
        return None
    if not com or not new: return None
    keys = []
    for lst in (old, com, new):
        for k, _ in lst:
            if not any(k == q for q in keys): keys.append(k)
    def changes(side):
        ch = []
        for k in keys:
            a, b = find(old, k), find(side, k)
            if a != b: ch.append(k)
        return ch
    cc, cn = changes(com), changes(new)
    for k in cc:
        if any(k == q for q in cn): return None
    if old:
        m = old[0][0]
        if com[0][0] > m or new[0][0] > m: return None
    out = []
    for k in keys:
        o, c, n = find(old, k), find(com, k), find(new, k)
        v = c if c != o else n
        if v is not None:
            out.append((k, v))
    # sort by k (insertion sort using <)
    res = []
    for kv in out:
        i = 0
        while i < len(res) and res[i][0] < kv[0]: i += 1
        res.insert(i, kv)
    return res or None

def run(cls, old, com, new):
    def st(lst):
        flat = []
        for k, v in lst:
            flat.append(K(k)); flat.append(v)
        return (tuple(flat),)
    try:
        r = cls()._p_resolveConflict(st(old), st(com), st(new))
    except BTreesConflictError as e:
        return None, e.reason
    items = r[0]
    return [(items[i].v, items[i+1]) for i in range(0, len(items), 2)], None

def merge2(cls, o1, o2, c1, c2, n1, n2, vo1, vo2, vc1, vc2, vn1, vn2):
    old = [(o1, vo1), (o2, vo2)]; com = [(c1, vc1), (c2, vc2)]; new = [(n1, vn1), (n2, vn2)]
    got, reason = run(cls, old, com, new)
    want = spec(old, com, new)
    return got == want

def c_merge2(o1: int, o2: int, c1: int, c2: int, n1: int, n2: int, vo1: bool, vo2: bool, vc1: bool, vc2: bool, vn1: bool, vn2: bool) -> bool:
    """
    pre: o1 < o2 and c1 < c2 and n1 < n2
    post: _
    """
    return merge2(OOBucket, o1, o2, c1, c2, n1, n2, vo1, vo2, vc1, vc2, vn1, vn2)

def py_merge2(o1: int, o2: int, c1: int, c2: int, n1: int, n2: int, vo1: bool, vo2: bool, vc1: bool, vc2: bool, vn1: bool, vn2: bool) -> bool:
    """
    pre: o1 < o2 and c1 < c2 and n1 < n2
    post: _
    """
    return merge2(OOBucketPy, o1, o2, c1, c2, n1, n2, vo1, vo2, vc1, vc2, vn1, vn2)

def refcnt(a: int, b: int, c: int) -> bool:
    """
    post: _
    """
    ks = [K(a), K(b), K(c)]
    base = [sys.getrefcount(k) for k in ks]
    s = OOSet()
    for k in ks: s.add(k)
    n = len(s)
    held = [sys.getrefcount(k) - b0 for k, b0 in zip(ks, base)]
    # each key held once iff it is the stored representative
    tot = sum(held)
    del s
    after = [sys.getrefcount(k) - b0 for k, b0 in zip(ks, base)]
    return tot == n and after == [0, 0, 0]

def realize_n(a: int, n: int) -> bool:
    """
    pre: 0 <= n < 6
    post: _
    """
    m = operator.index(n)   # realization
    return m * 2 == n + n and (a < 3 or a >= 3)
