"""mini ZODB-like jar for probing."""
import persistent
from persistent import Persistent, PickleCache

class Ref:
    __slots__ = ('oid', 'cls')
    def __init__(self, oid, cls): self.oid = oid; self.cls = cls

class Storage:
    def __init__(self):
        self.data = {}   # oid -> (cls, state_with_refs, serial)
        self.next = 1
        self.tid = 0
    def new_oid(self):
        o = self.next; self.next += 1
        return o.to_bytes(8, 'big')

def _walk_out(x, jar, new):
    # replace persistent children by Ref, assigning oids to new ones
    if isinstance(x, tuple):
        return tuple(_walk_out(i, jar, new) for i in x)
    if isinstance(x, Persistent):
        if x._p_oid is None:
            x._p_jar = jar
            x._p_oid = jar.storage.new_oid()
            jar.cache[x._p_oid] = x
            new.append(x)
        return Ref(x._p_oid, type(x))
    return x

class Jar:
    def __init__(self, storage):
        self.storage = storage
        self.cache = PickleCache(self, 10000)
        self.registered = []
        self.readcurrent = []
        self.log = []
    # persistence protocol
    def register(self, obj):
        self.registered.append(obj)
        self.log.append(('register', obj._p_oid))
    def readCurrent(self, obj):
        self.readcurrent.append(obj)
        self.log.append(('readCurrent', obj._p_oid))
    def setstate(self, obj):
        cls, state, serial = self.storage.data[obj._p_oid]
        self.log.append(('setstate', obj._p_oid))
        obj.__setstate__(self._walk_in(state))
        obj._p_serial = serial
    def oldstate(self, obj, tid): raise NotImplementedError
    def _walk_in(self, x):
        if isinstance(x, tuple):
            return tuple(self._walk_in(i) for i in x)
        if isinstance(x, Ref):
            return self.get(x.oid, x.cls)
        return x
    def get(self, oid, cls=None):
        o = self.cache.get(oid)
        if o is not None:
            return o
        if cls is None:
            cls = self.storage.data[oid][0]
        o = cls.__new__(cls)
        self.cache.new_ghost(oid, o)
        return o
    def add_root(self, obj):
        obj._p_jar = self
        obj._p_oid = self.storage.new_oid()
        self.cache[obj._p_oid] = obj
        self.registered.append(obj)
        return obj._p_oid
    def commit(self):
        self.storage.tid += 1
        serial = self.storage.tid.to_bytes(8, 'big')
        todo = list(self.registered)
        self.registered = []
        seen = set()
        while todo:
            obj = todo.pop()
            if id(obj) in seen: continue
            seen.add(id(obj))
            new = []
            st = _walk_out(obj.__getstate__(), self, new)
            self.storage.data[obj._p_oid] = (type(obj), st, serial)
            obj._p_changed = False
            obj._p_serial = serial
            todo.extend(new)
        self.readcurrent = []
