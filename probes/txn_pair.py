from minidb_conflict_sketch import *
from BTrees.OOBTree import OOBTree, OOBTreePy
from BTrees.check import check as bt_check
from merge_refcnt_realize import K
OOBTree.max_leaf_size = 2; OOBTree.max_internal_size = 2
OOBTreePy.max_leaf_size = 2; OOBTreePy.max_internal_size = 2

def mset(m, k, v):
    for i in range(len(m)):
        if m[i][0] == k: m[i] = (k, v); return
        if k < m[i][0]: m.insert(i, (k, v)); return
    m.append((k, v))
def mdel(m, k):
    for i in range(len(m)):
        if m[i][0] == k: del m[i]; return True
    return False

def txn(cls, a, b, c, d, x, y, opx, opy):
    st = Storage(); j0 = Jar(st); t0 = cls(); root = j0.add_root(t0)
    base = [a, b, c, d]
    for i, v in enumerate(base): t0[K(v)] = i
    j0.commit()
    j1 = Jar(st); t1 = j1.get(root); j2 = Jar(st); t2 = j2.get(root)
    def apply(t, op, k):
        if op == 0: t[K(k)] = 77
        else:
            try: del t[K(k)]
            except KeyError: pass
    def mapply(m, op, k):
        if op == 0: mset(m, k, 77)
        else: mdel(m, k)
    apply(t1, opx, x); apply(t2, opy, y)
    j1.commit()
    try:
        j2.commit()
    except ConflictError:
        return True
    j3 = Jar(st); t3 = j3.get(root)
    t3._check(); bt_check(t3)
    got = [(k.v, v) for k, v in t3.items()]
    m = [(v, i) for i, v in enumerate(base)]
    serial = list(m); mapply(serial, opx, x); mapply(serial, opy, y)
    # net changes of each transaction against its own snapshot (base)
    m1 = list(m); mapply(m1, opx, x)
    m2 = list(m); mapply(m2, opy, y)
    def find(mm, k):
        for kk, vv in mm:
            if kk == k: return vv
        return None
    keys = [v for v in base]
    for k in (x, y):
        if not any(k == q for q in keys): keys.append(k)
    ch1 = [k for k in keys if find(m, k) != find(m1, k)]
    ch2 = [k for k in keys if find(m, k) != find(m2, k)]
    disjoint = not any(any(k == q for q in ch2) for k in ch1)
    merged = None
    if disjoint:
        merged = []
        for k in keys:
            v = find(m1, k) if any(k == q for q in ch1) else find(m2, k)
            if v is not None: mset(merged, k, v)
    return got == serial or (merged is not None and got == merged)

def c_txn(a: int, b: int, c: int, d: int, x: int, y: int, opx: int, opy: int) -> bool:
    """
    pre: a < b < c < d
    pre: 0 <= opx <= 1 and 0 <= opy <= 1
    post: _
    """
    return txn(OOBTree, a, b, c, d, x, y, opx, opy)
def py_txn(a: int, b: int, c: int, d: int, x: int, y: int, opx: int, opy: int) -> bool:
    """
    pre: a < b < c < d
    pre: 0 <= opx <= 1 and 0 <= opy <= 1
    post: _
    """
    return txn(OOBTreePy, a, b, c, d, x, y, opx, opy)
