import sys, time, collections
from catalogue_bfs import sig, build
from BTrees.OOBTree import OOBTree, OOBucket
def absig(t):
    def collect(node):
        st = node.__getstate__()
        if st is None: return ('E',)
        if isinstance(node, OOBucket): return ('B', tuple(st[0][::2]))
        if len(st) == 1: return ('T1', tuple(st[0][0][0][::2]))
        return ('T', tuple(('K', x) if i % 2 else collect(x) for i, x in enumerate(st[0])))
    return collect(t)
def bfs(N, L, I, maxdepth):
    OOBTree.max_leaf_size = L; OOBTree.max_internal_size = I
    seen = {('E',): ()}; shapes = {('E',): ()}
    frontier = [()]; depth = 0; t0 = time.time()
    while frontier and depth < maxdepth:
        nxt = []
        for h in frontier:
            present = set()
            for op, k in h: (present.add if op == 'i' else present.discard)(k)
            for k in range(N):
                h2 = h + ((('d', k),) if k in present else (('i', k),))
                t = build(OOBTree, h2)
                a = absig(t)
                if a not in seen:
                    seen[a] = h2; nxt.append(h2)
                    shapes.setdefault(sig(t, (OOBucket,)), h2)
        frontier = nxt; depth += 1
    print('N', N, 'L', L, 'I', I, 'depth', depth, 'abs states', len(seen), 'shapes', len(shapes), 'frontier', len(frontier), '%.1fs' % (time.time() - t0)); sys.stdout.flush()
    return shapes
for (N, L, I, D) in ((5,2,2,30), (6,2,2,30), (7,2,2,16), (6,3,2,30), (6,2,3,30)):
    s = bfs(N, L, I, D)
