import sys
from minidb_sketch import *
from BTrees.OOBTree import OOBTree, OOBTreePy
for cls in (OOBTree, OOBTreePy):
    cls.max_leaf_size = 2; cls.max_internal_size = 2
    st = Storage(); jar = Jar(st)
    t = cls()
    root = jar.add_root(t)
    for i in range(7): t[i] = i
    jar.commit()
    print(cls.__name__, len(st.data), 'records')
    # fresh reader
    j2 = Jar(st)
    t2 = j2.get(root)
    print(' ghost?', t2._p_state, list(t2.items()) == list(t.items()))
    t2._check()
    # modify via writer; check registration
    jar.log.clear()
    t[3] = 'x'
    print(' log', jar.log)
    jar.commit()
    j3 = Jar(st); t3 = j3.get(root)
    print(' reload ok', list(t3.items()) == list(t.items()))
    # eviction
    j3.cache.minimize()
    print(' after minimize state', t3._p_state, list(t3.keys()))
    print(' sticky after?', [ (o._p_state) for o in [t3] ])
