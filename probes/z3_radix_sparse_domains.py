import z3, time, sys, itertools
D = [0x00, 0x01, 0x7f, 0x80, 0xfe, 0xff]
def radix(n_el, width, signed_family, W=64, distinct=True):
    t00 = time.time()
    nb = width // 8
    s = z3.Solver()
    bts = [[z3.BitVec('x%d_%d' % (i, k), 8) for k in range(nb)] for i in range(n_el)]
    for i in range(n_el):
        for k in range(nb):
            s.add(z3.Or(*[bts[i][k] == d for d in D]))
    xs = [z3.Concat(*reversed(b)) for b in bts]
    ONE = z3.BitVecVal(1, W); Z = z3.BitVecVal(0, W); N = z3.BitVecVal(n_el, W)
    nq = 0
    def feas(b):
        nonlocal nq
        out = []
        for d in D:   # executor would query all 256; emulate with D (others unsat by the domain constraint)
            nq += 1
            if s.check(b == d) == z3.sat: out.append(d)
        return out
    count = [[Z] * 256 for _ in range(nb)]
    for i in range(n_el):
        for k in range(nb):
            b = bts[i][k]
            for j in feas(b):
                count[k][j] = z3.If(b == j, count[k][j] + ONE, count[k][j])
    inn = list(xs); work = [z3.BitVecVal(0, width)] * n_el
    paths = [(s, inn, work, 0)]
    # single-path emulation: follow 'no early exit' branch where feasible, record that early-exit branches exist
    early_feasible = 0
    for k in range(nb):
        index = [Z] * 256; total = Z
        order = list(range(256)) if k < nb - 1 else list(range(128, 256)) + list(range(128))
        for i in order:
            ic = z3.simplify(count[k][i])
            index[i] = total
            total = z3.simplify(total + ic)
            if z3.is_bv_value(ic):
                assert ic.as_long() != n_el
                continue
            nq += 1
            if s.check(ic == N) == z3.sat:
                early_feasible += 1
                s.add(ic != N)      # continue on the non-early path (the early ones are separate, shorter paths)
        for i in range(n_el):
            b = z3.Extract(8*k+7, 8*k, inn[i])
            fs = feas(b)
            pos = index[fs[-1]]
            for j in reversed(fs[:-1]):
                pos = z3.If(b == j, index[j], pos)
            for j in fs:
                index[j] = z3.If(b == j, index[j] + ONE, index[j])
            work = [z3.If(pos == j, inn[i], w) for j, w in enumerate(work)]
        inn, work = work, inn
    le = (lambda a, b: a <= b) if signed_family else z3.ULE
    sorted_ = z3.And(*[le(inn[i], inn[i+1]) for i in range(n_el - 1)])
    t1 = time.time()
    r = s.check(z3.Not(sorted_))
    print('n', n_el, 'w', width, 'signed', signed_family, '->', r, 'queries', nq, 'early-branches', early_feasible, 'build %.1f final %.1f' % (t1 - t00, time.time() - t1)); sys.stdout.flush()
    if r == z3.sat:
        m = s.model(); print('  cex', [hex(m.eval(x).as_long()) for x in xs])
radix(2, 32, True)
radix(2, 32, False)
radix(3, 32, True)
radix(3, 32, False)
radix(2, 64, True)
radix(2, 64, False)
