from typing import List, Tuple
from BTrees.OOBTree import OOBTreePy, OOBTree, OOBucket, OOBucketPy
from BTrees.check import check as bt_check

OOBTree.max_leaf_size = 2; OOBTree.max_internal_size = 2
OOBTreePy.max_leaf_size = 2; OOBTreePy.max_internal_size = 2

class K:
    __slots__ = ('v',)
    def __init__(self, v): self.v = v
    def __lt__(self, o): return self.v < o.v
    def __gt__(self, o): return self.v > o.v
    def __le__(self, o): return self.v <= o.v
    def __ge__(self, o): return self.v >= o.v
    def __eq__(self, o): return isinstance(o, K) and self.v == o.v
    def __ne__(self, o): return not (isinstance(o, K) and self.v == o.v)
    def __hash__(self): return 0
    def __repr__(self): return 'K(%r)' % (self.v,)

def build(tree_cls, bucket_cls, ks):
    # 3-level shape: root -> [n0 -> [b0(k0,k1), b1(k2)], n1 -> [b2(k3,k4), b3(k5)]]  separators k2, k3(stale?), k5
    b3 = bucket_cls(); b3.__setstate__(((ks[5], 5),))
    b2 = bucket_cls(); b2.__setstate__(((ks[3], 3, ks[4], 4), b3))
    b1 = bucket_cls(); b1.__setstate__(((ks[2], 2), b2))
    b0 = bucket_cls(); b0.__setstate__(((ks[0], 0, ks[1], 1), b1))
    n0 = tree_cls(); n0.__setstate__(((b0, ks[2], b1), b0))
    n1 = tree_cls(); n1.__setstate__(((b2, ks[5], b3), b2))
    root = tree_cls(); root.__setstate__(((n0, ks[3], n1), b0))
    return root

def step(tree_cls, bucket_cls, a, b, c, d, e, f, x, op):
    ks = [K(a), K(b), K(c), K(d), K(e), K(f)]
    t = build(tree_cls, bucket_cls, ks)
    model = [(ks[i], i) for i in range(6)]
    kx = K(x)
    # model op
    idx = None
    for i, (k, v) in enumerate(model):
        if k.v == x:
            idx = i
    res = exc = None
    try:
        if op == 0:
            t[kx] = 99
        elif op == 1:
            del t[kx]
        elif op == 2:
            res = t.get(kx, -1)
        else:
            res = (kx in t)
    except KeyError:
        exc = 'KeyError'
    # model
    mres = mexc = None
    if op == 0:
        if idx is None:
            pos = 0
            while pos < len(model) and model[pos][0].v < x:
                pos += 1
            model.insert(pos, (kx, 99))
        else:
            model[idx] = (model[idx][0], 99)
    elif op == 1:
        if idx is None: mexc = 'KeyError'
        else: del model[idx]
    elif op == 2:
        mres = -1 if idx is None else model[idx][1]
    else:
        mres = idx is not None
    t._check()
    bt_check(t)
    got = [(k.v, v) for k, v in t.items()]
    want = [(k.v, v) for k, v in model]
    return res == mres and exc == mexc and got == want

def c_step(a: int, b: int, c: int, d: int, e: int, f: int, x: int, op: int) -> bool:
    """
    pre: a < b < c < d < e < f
    pre: 0 <= op <= 3
    post: _
    """
    return step(OOBTree, OOBucket, a, b, c, d, e, f, x, op)

def py_step(a: int, b: int, c: int, d: int, e: int, f: int, x: int, op: int) -> bool:
    """
    pre: a < b < c < d < e < f
    pre: 0 <= op <= 3
    post: _
    """
    return step(OOBTreePy, OOBucketPy, a, b, c, d, e, f, x, op)
