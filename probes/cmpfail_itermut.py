import sys
from BTrees.OOBTree import OOBTree, OOBucket, OOBTreePy, OOBucketPy
from BTrees.check import check as bt_check
OOBTree.max_leaf_size = 2; OOBTree.max_internal_size = 2
OOBTreePy.max_leaf_size = 2; OOBTreePy.max_internal_size = 2
class CmpError(Exception): pass
CTL = {'n': 0, 'fail': -1}
class K:
    __slots__ = ('v',)
    def __init__(self, v): self.v = v
    def _t(self):
        CTL['n'] += 1
        if CTL['n'] == CTL['fail']: raise CmpError()
    def __lt__(self, o): self._t(); return self.v < o.v
    def __gt__(self, o): self._t(); return self.v > o.v
    def __eq__(self, o): self._t(); return isinstance(o, K) and self.v == o.v
    def __hash__(self): return 0
def build(tree_cls, bucket_cls, ks):
    b3 = bucket_cls(); b3.__setstate__(((ks[5], 5),))
    b2 = bucket_cls(); b2.__setstate__(((ks[3], 3, ks[4], 4), b3))
    b1 = bucket_cls(); b1.__setstate__(((ks[2], 2), b2))
    b0 = bucket_cls(); b0.__setstate__(((ks[0], 0, ks[1], 1), b1))
    n0 = tree_cls(); n0.__setstate__(((b0, ks[2], b1), b0))
    n1 = tree_cls(); n1.__setstate__(((b2, ks[5], b3), b2))
    root = tree_cls(); root.__setstate__(((n0, ks[3], n1), b0))
    return root
def cmpfail(tree_cls, bucket_cls, a, b, c, d, e, f, x, op, fail):
    ks = [K(a), K(b), K(c), K(d), K(e), K(f)]
    vals = [a, b, c, d, e, f]
    CTL['n'] = 0; CTL['fail'] = -1
    t = build(tree_cls, bucket_cls, ks)
    before = [k.v for k in t.keys()]
    CTL['n'] = 0; CTL['fail'] = fail
    raised = False
    try:
        if op == 0: t[K(x)] = 9
        else:
            try: del t[K(x)]
            except KeyError: pass
    except CmpError:
        raised = True
    CTL['fail'] = -1
    t._check(); bt_check(t)
    after = [k.v for k in t.keys()]
    if op == 0:
        done = sorted(set(before + [x]))
    else:
        done = [v for v in before if v != x]
    if raised:
        return after == before or after == done
    return after == done
def c_cmpfail(a: int, b: int, c: int, d: int, e: int, f: int, x: int, op: int, fail: int) -> bool:
    """
    pre: a < b < c < d < e < f
    pre: 0 <= op <= 1
    pre: 1 <= fail <= 8
    post: _
    """
    return cmpfail(OOBTree, OOBucket, a, b, c, d, e, f, x, op, fail)

def itermut(tree_cls, bucket_cls, a, b, c, d, e, f, s0, s1, s2, x0, x1, x2):
    ks = [K(a), K(b), K(c), K(d), K(e), K(f)]
    t = build(tree_cls, bucket_cls, ks)
    it = iter(t)
    model = [a, b, c, d, e, f]
    for s, x in ((s0, x0), (s1, x1), (s2, x2)):
        if s == 0:
            try:
                k = next(it)
            except StopIteration: pass
            except (RuntimeError, IndexError): pass
        elif s == 1:
            t[K(x)] = 1
            if not any(v == x for v in model):
                i = 0
                while i < len(model) and model[i] < x: i += 1
                model.insert(i, x)
        else:
            try:
                del t[K(x)]
                model = [v for v in model if v != x]
            except KeyError: pass
    t._check(); bt_check(t)
    return [k.v for k in t.keys()] == model
def c_itermut(a: int, b: int, c: int, d: int, e: int, f: int, s0: int, s1: int, s2: int, x0: int, x1: int, x2: int) -> bool:
    """
    pre: a < b < c < d < e < f
    pre: 0 <= s0 <= 2 and 0 <= s1 <= 2 and 0 <= s2 <= 2
    post: _
    """
    return itermut(OOBTree, OOBucket, a, b, c, d, e, f, s0, s1, s2, x0, x1, x2)
