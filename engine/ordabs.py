"""Exact order abstraction for the E2 queries.

The tree and leaf code of the native-key families only COMPARES machine words (<, <=, == in the family's signed or
unsigned order) and moves them around; it never computes on them.  Path conditions and post-conditions are therefore
Boolean combinations of order atoms over bit-vector constants and numerals.  Bit-blasting such formulas makes z3 prove
transitivity chains bit by bit, which occasionally explodes (a 7-key chain on 64-bit words: 3 s or > 10 min depending
on the random seed).  The map  word -> its unsigned value  is an order isomorphism between (BitVec w, ULT) and the
integers 0 .. 2**w - 1, and signed comparison is unsigned comparison after flipping the top bit, so every such formula
is EQUIVALENT to a linear-integer formula over one integer per word, which z3 decides instantly.  Anything that is not
a pure order formula (arithmetic, extraction of bit ranges, ...) is not translated: the query then goes to the
bit-vector solver as before (with a time limit; `unknown` is reported as inconclusive, never as success).
"""
import z3


class NotOrder(Exception):
    pass


_CMP = {z3.Z3_OP_ULEQ: ('u', '<='), z3.Z3_OP_ULT: ('u', '<'), z3.Z3_OP_UGEQ: ('u', '>='), z3.Z3_OP_UGT: ('u', '>'),
        z3.Z3_OP_SLEQ: ('s', '<='), z3.Z3_OP_SLT: ('s', '<'), z3.Z3_OP_SGEQ: ('s', '>='), z3.Z3_OP_SGT: ('s', '>')}


class Abs:
    def __init__(self):
        self.ints = {}          # name of a bit-vector constant -> (Int var, width)
        self.cache = {}
        self.domain = []

    def var(self, e):
        n = e.decl().name()
        if n not in self.ints:
            w = e.size()
            v = z3.Int('i!' + n)
            self.ints[n] = (v, w)
            self.domain += [v >= 0, v < (1 << w)]
        return self.ints[n][0]

    def term(self, e):
        """unsigned integer value of a bit-vector term -> (int expr, width)"""
        k = e.decl().kind()
        w = e.size()
        if z3.is_bv_value(e):
            return z3.IntVal(e.as_long()), w
        if k == z3.Z3_OP_UNINTERPRETED and e.num_args() == 0:
            return self.var(e), w
        if k == z3.Z3_OP_ITE:
            a, _ = self.term(e.arg(1))
            b, _ = self.term(e.arg(2))
            return z3.If(self.tr(e.arg(0)), a, b), w
        if k == z3.Z3_OP_ZERO_EXT:
            a, _ = self.term(e.arg(0))
            return a, w
        if k == z3.Z3_OP_SIGN_EXT:
            a, w0 = self.term(e.arg(0))
            return z3.If(a >= (1 << (w0 - 1)), a + ((1 << w) - (1 << w0)), a), w
        raise NotOrder(str(e.decl()))

    @staticmethod
    def signed(a, w):
        return z3.If(a >= (1 << (w - 1)), a - (1 << w), a)

    def tr(self, e):
        i = e.get_id()
        if i in self.cache:
            return self.cache[i][1]
        r = self._tr(e)
        self.cache[i] = (e, r)      # keeps e alive: z3 reuses the ids of freed terms
        return r

    def _tr(self, e):
        k = e.decl().kind()
        if z3.is_true(e) or z3.is_false(e):
            return e
        if k == z3.Z3_OP_AND:
            return z3.And(*[self.tr(c) for c in e.children()])
        if k == z3.Z3_OP_OR:
            return z3.Or(*[self.tr(c) for c in e.children()])
        if k == z3.Z3_OP_NOT:
            return z3.Not(self.tr(e.arg(0)))
        if k == z3.Z3_OP_IMPLIES:
            return z3.Implies(self.tr(e.arg(0)), self.tr(e.arg(1)))
        if k == z3.Z3_OP_ITE and z3.is_bool(e):
            return z3.If(self.tr(e.arg(0)), self.tr(e.arg(1)), self.tr(e.arg(2)))
        if k in (z3.Z3_OP_EQ, z3.Z3_OP_DISTINCT):
            a, b = e.arg(0), e.arg(1)
            if z3.is_bool(a):
                r = self.tr(a) == self.tr(b)
            elif z3.is_bv(a):
                r = self.term(a)[0] == self.term(b)[0]
            else:
                raise NotOrder('equality over ' + str(a.sort()))
            if k == z3.Z3_OP_DISTINCT:
                if e.num_args() != 2:
                    raise NotOrder('distinct/n')
                r = z3.Not(r)
            return r
        if k in _CMP:
            sg, op = _CMP[k]
            a, w = self.term(e.arg(0))
            b, _ = self.term(e.arg(1))
            if sg == 's':
                a, b = self.signed(a, w), self.signed(b, w)
            return {'<=': a <= b, '<': a < b, '>=': a >= b, '>': a > b}[op]
        if k == z3.Z3_OP_UNINTERPRETED and e.num_args() == 0 and z3.is_bool(e):
            return e
        raise NotOrder(str(e.decl()))


class _Model:
    def __init__(self, m, ab):
        self.m, self.ab = m, ab

    def eval(self, e, model_completion=True):
        if z3.is_bv(e):
            v = self.m.eval(self.ab.term(e)[0], model_completion=True)
            return z3.BitVecVal(v.as_long(), e.size())
        return self.m.eval(self.ab.tr(e), model_completion=True)


class OSolver:
    """the part of the z3.Solver interface the E2 code uses; decides in the integer order abstraction when every
    assertion is a pure order formula, with the bit-vector solver (time-limited) otherwise"""
    STATS = {'order': 0, 'bitvector': 0}

    def __init__(self, bv_timeout_ms=60000):
        self.stack = [[]]
        self.ab = Abs()
        self.bv_timeout = bv_timeout_ms
        self._model = None

    def add(self, *cs):
        for c in cs:
            if isinstance(c, (list, tuple)):
                self.add(*c)
            else:
                self.stack[-1].append(c)

    def push(self):
        self.stack.append([])

    def pop(self):
        self.stack.pop()

    def assertions(self):
        return [c for fr in self.stack for c in fr]

    def check(self, *extra):
        cs = self.assertions() + list(extra)
        cs = [c if z3.is_expr(c) else z3.BoolVal(bool(c)) for c in cs]
        try:
            tr = [self.ab.tr(c) for c in cs]
            s = z3.Solver()
            s.add(*self.ab.domain)
            s.add(*tr)
            r = s.check()
            OSolver.STATS['order'] += 1
            self._model = _Model(s.model(), self.ab) if str(r) == 'sat' else None
            return r
        except NotOrder:
            s = z3.Solver()
            s.set('timeout', self.bv_timeout)
            s.add(*cs)
            r = s.check()
            OSolver.STATS['bitvector'] += 1
            self._model = s.model() if str(r) == 'sat' else None
            return r

    def model(self):
        return self._model
