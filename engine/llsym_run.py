"""Obligations of engine E2: the real sorters.c kernels (clang IR) on fully
symbolic 32/64-bit words.  Called by engine/worker.py for obligations with
engine == 'llsym'."""
import ctypes
import os
import random
import subprocess
import sysconfig
import time

import z3

from engine import llsym
from engine.build import SRC, REPO

FAM = {'II': [], 'UU': ['-DZODB_UNSIGNED_KEY_INTS'], 'LL': ['-DZODB_64BIT_INTS'], 'QQ': ['-DZODB_64BIT_INTS', '-DZODB_UNSIGNED_KEY_INTS']}
KSRC = os.path.join(os.path.dirname(os.path.dirname(os.path.abspath(__file__))), 'harness', 'kernels', 'verif_kernels.c')
_BUILT = {}


def build(fam, scratch):
    if fam in _BUILT:
        return _BUILT[fam]
    inc = sysconfig.get_paths()['include']
    d = os.path.join(scratch, 'kernels')
    os.makedirs(d, exist_ok=True)
    ll, so = os.path.join(d, 'k_%s_%d.ll' % (fam, os.getpid())), os.path.join(d, 'k_%s_%d.so' % (fam, os.getpid()))
    common = ['-w'] + FAM[fam] + ['-I' + inc, '-I' + SRC, KSRC]
    subprocess.run(['clang-14', '-S', '-emit-llvm', '-O1', '-fno-inline-functions', '-fno-unroll-loops', '-fno-vectorize',
                    '-fno-slp-vectorize'] + common + ['-o', ll], check=True, capture_output=True)
    subprocess.run(['gcc', '-O2', '-shared', '-fPIC'] + common + ['-o', so], check=True, capture_output=True)
    lib = ctypes.CDLL(so)
    lib.v_keysize.restype = ctypes.c_size_t
    ks = lib.v_keysize()
    signed = bool(lib.v_key_is_signed())
    ct = {(4, True): ctypes.c_int32, (4, False): ctypes.c_uint32, (8, True): ctypes.c_int64, (8, False): ctypes.c_uint64}[(ks, signed)]
    for f in ('v_uniq', 'v_sort_int_nodups'):
        getattr(lib, f).restype = ctypes.c_size_t
    _BUILT[fam] = dict(module=llsym.Module(ll), lib=lib, ks=ks, signed=signed, ct=ct, ll=ll)
    return _BUILT[fam]


def native(K, kernel, xs):
    """run the natively compiled kernel -> (ret, output list)"""
    n = len(xs)
    arr = (K['ct'] * max(n, 1))(*xs)
    if kernel == 'uniq':
        r = K['lib'].v_uniq(arr, arr, ctypes.c_size_t(n))
    elif kernel == 'uniq_copy':
        out = (K['ct'] * max(n, 1))()
        r = K['lib'].v_uniq(out, arr, ctypes.c_size_t(n))
        arr = out
    elif kernel == 'quicksort':
        K['lib'].v_quicksort(arr, ctypes.c_size_t(n))
        r = n
    else:
        r = K['lib'].v_sort_int_nodups(arr, ctypes.c_size_t(n))
    return int(r), [int(arr[i]) for i in range(n)]


def interp(K, kernel, vals, budget=400000, timeout=None, pre=()):
    """run the IR of the kernel on vals (z3 values) -> (outcomes, stats, base address)"""
    it = llsym.Interp(K['module'], budget=budget, timeout=timeout)
    mem = llsym.Memory()
    n = len(vals)
    base = mem.alloc(n * K['ks'], 'array')
    for i, v in enumerate(vals):
        mem.store(base + i * K['ks'], K['ks'], v)
    p, nn = llsym.bv(base, 64), llsym.bv(n, 64)
    if kernel == 'uniq_copy':
        # as after the radix sort: the sorted data is in the scratch buffer, uniq copies it back
        obase = mem.alloc(n * K['ks'], 'array')
        for i in range(n):
            mem.store(obase + i * K['ks'], K['ks'], llsym.bv(0, K['ks'] * 8))
        outs = it.run('v_uniq', [llsym.bv(obase, 64), p, nn], mem, pre)
        return outs, it.stats, obase
    fn, args = {'uniq': ('v_uniq', [p, p, nn]), 'quicksort': ('v_quicksort', [p, nn]), 'sort_int_nodups': ('v_sort_int_nodups', [p, nn])}[kernel]
    outs = it.run(fn, args, mem, pre)
    return outs, it.stats, base


def lt(K):
    return (lambda a, b: a < b) if K['signed'] else z3.ULT


def le(K):
    return (lambda a, b: a <= b) if K['signed'] else z3.ULE


def validate(K, kernel, n, rnd, rounds=40):
    """translator validation: the interpreter, run on concrete words, must agree with the compiled function"""
    w = K['ks'] * 8
    for _ in range(rounds):
        m = rnd.randrange(0 if kernel in ('uniq', 'uniq_copy') else 1, n + 1)     # the only caller passes n >= 1 to the sorts
        pool = [rnd.randrange(0, 1 << w) for _ in range(3)] + [0, (1 << w) - 1, 1 << (w - 1), (1 << (w - 1)) - 1]
        xs = [rnd.choice(pool) for _ in range(m)]
        if kernel in ('uniq', 'uniq_copy'):
            key = (lambda v: v - (1 << w) if v >> (w - 1) else v) if K['signed'] else (lambda v: v)
            xs = sorted(xs, key=key)
        cxs = [x - (1 << w) if (K['signed'] and x >> (w - 1)) else x for x in xs]
        r_nat, out_nat = native(K, kernel, cxs)
        outs, _, base = interp(K, kernel, [llsym.bv(x, w) for x in xs])
        rets = [o for o in outs if o.kind == 'ret']
        if len(rets) != 1 or len(outs) != 1:
            return 'interpreter produced %r on concrete input %r' % ([(o.kind, o.detail) for o in outs], cxs)
        o = rets[0]
        r_int = z3.simplify(o.ret).as_long() if o.ret is not None else m
        got = [z3.simplify(o.mem.load(base + i * K['ks'], K['ks'])).as_long() for i in range(r_int if kernel != 'quicksort' else m)]
        want = [v & ((1 << w) - 1) for v in out_nat[:len(got)]]
        if r_int != r_nat or got != want:
            return 'interpreter %r/%r differs from the compiled function %r/%r on %r' % (r_int, got, r_nat, want, cxs)
    return None


def run(ob, scratch):
    t0 = time.time()
    P = ob['params']
    fam, kernel, n = P['family'], P['kernel'], P['n']
    K = build(fam, scratch)
    res = {'id': ob['id'], 'names': ['x%d' % i for i in range(n)], 'twin_refuted': False, 'witness': None, 'twin_s': 0}
    rnd = random.Random(1234)
    bad = validate(K, kernel, n, rnd)
    if bad:
        res.update(verdict='error', detail='translator validation failed: ' + bad, paths=0, solver_queries=0, solver_s=0, wall_s=time.time() - t0)
        return res
    w = K['ks'] * 8
    xs = [z3.BitVec('x%d' % i, w) for i in range(n)]
    pre = [le(K)(xs[i], xs[i + 1]) for i in range(n - 1)] if kernel in ('uniq', 'uniq_copy') else []
    try:
        outs, stats, base = interp(K, kernel, xs, timeout=ob.get('timeout', 120), pre=pre)
    except (llsym.Unsupported, llsym.Budget) as e:
        res.update(verdict='inconclusive', detail='%s: %s' % (type(e).__name__, e), paths=0, solver_queries=0, solver_s=0, wall_s=time.time() - t0)
        return res
    s = z3.Solver()
    q = 0
    ts = 0.0
    cex = None
    detail = None
    reached = 0
    for o in outs:
        s.push()
        s.add(*o.cond)
        t1 = time.perf_counter()
        feas = str(s.check())
        q += 1
        if feas != 'sat':
            s.pop()
            ts += time.perf_counter() - t1
            if feas == 'unknown':
                detail = 'solver unknown'
                cex = 'unknown'
            continue
        if o.kind in ('assert', 'memory'):
            mdl = s.model()
            cex = {'x%d' % i: mdl.eval(xs[i], model_completion=True).as_long() for i in range(n)}
            detail = ('assertion of the C source reachable: ' if o.kind == 'assert' else 'memory error: ') + str(o.detail)
            s.pop()
            break
        if o.kind == 'dead':
            s.pop()
            continue
        reached += 1
        k = n if kernel == 'quicksort' else z3.simplify(o.ret)
        if kernel != 'quicksort':
            if not z3.is_bv_value(k):
                s.pop()
                cex, detail = 'unknown', 'symbolic return value'
                break
            k = k.as_long()
        out = [o.mem.load(base + i * K['ks'], K['ks']) for i in range(k)]
        if kernel == 'quicksort':
            post = [le(K)(out[i], out[i + 1]) for i in range(k - 1)]
            for x in xs:        # same multiset
                post.append(z3.Sum([z3.If(y == x, 1, 0) for y in out]) == z3.Sum([z3.If(y == x, 1, 0) for y in xs]))
        else:
            post = [lt(K)(out[i], out[i + 1]) for i in range(k - 1)]
            post += [z3.Or(*[x == y for y in out]) if out else z3.BoolVal(False) for x in xs]
            post += [z3.Or(*[y == x for x in xs]) for y in out]
        r = str(s.check(z3.Not(z3.And(*post)) if post else z3.BoolVal(False)))
        q += 1
        ts += time.perf_counter() - t1
        if r == 'sat':
            mdl = s.model()
            cex = {'x%d' % i: mdl.eval(xs[i], model_completion=True).as_long() for i in range(n)}
            detail = 'post-condition of %s violated' % kernel
            s.pop()
            break
        if r != 'unsat':
            cex, detail = 'unknown', 'solver unknown on the post-condition'
            s.pop()
            break
        s.pop()
    if cex == 'unknown':
        verdict, cex = 'inconclusive', None
    elif cex is not None:
        verdict = 'counterexample'
        if K['signed']:
            cex = {k_: (v - (1 << w) if v >> (w - 1) else v) for k_, v in cex.items()}
    elif reached == 0 and n > 0:
        verdict, detail = 'inconclusive', 'vacuous: no feasible returning path'
    else:
        verdict = 'confirmed'
    res.update(verdict=verdict, detail=detail, cex=cex, paths=len(outs), solver_queries=stats['queries'] + q,
               solver_s=round(stats['solver_s'] + ts, 3), wall_s=round(time.time() - t0, 2), twin_refuted=reached > 0,
               instr=stats['instr'], witness={'returning_paths': reached})
    return res
