"""Obligations of engine E2: the real sorters.c kernels (clang IR) on fully
symbolic 32/64-bit words.  Called by engine/worker.py for obligations with
engine == 'llsym'."""
import ctypes
import os
import random
import subprocess
import sysconfig
import time

import z3

from engine import llsym
from engine.ordabs import OSolver
from engine.build import SRC, REPO

FAM = {'II': [], 'UU': ['-DZODB_UNSIGNED_KEY_INTS'], 'LL': ['-DZODB_64BIT_INTS'], 'QQ': ['-DZODB_64BIT_INTS', '-DZODB_UNSIGNED_KEY_INTS']}
KSRC = os.path.join(os.path.dirname(os.path.dirname(os.path.abspath(__file__))), 'harness', 'kernels', 'verif_kernels.c')
_BUILT = {}


def build(fam, scratch):
    if fam in _BUILT:
        return _BUILT[fam]
    inc = sysconfig.get_paths()['include']
    d = os.path.join(scratch, 'kernels')
    os.makedirs(d, exist_ok=True)
    ll, so = os.path.join(d, 'k_%s_%d.ll' % (fam, os.getpid())), os.path.join(d, 'k_%s_%d.so' % (fam, os.getpid()))
    common = ['-w'] + FAM[fam] + ['-I' + inc, '-I' + SRC, KSRC]
    subprocess.run(['clang-14', '-S', '-emit-llvm', '-O1', '-fno-inline-functions', '-fno-unroll-loops', '-fno-vectorize',
                    '-fno-slp-vectorize'] + common + ['-o', ll], check=True, capture_output=True)
    subprocess.run(['gcc', '-O2', '-shared', '-fPIC'] + common + ['-o', so], check=True, capture_output=True)
    lib = ctypes.CDLL(so)
    lib.v_keysize.restype = ctypes.c_size_t
    ks = lib.v_keysize()
    signed = bool(lib.v_key_is_signed())
    ct = {(4, True): ctypes.c_int32, (4, False): ctypes.c_uint32, (8, True): ctypes.c_int64, (8, False): ctypes.c_uint64}[(ks, signed)]
    for f in ('v_uniq', 'v_sort_int_nodups'):
        getattr(lib, f).restype = ctypes.c_size_t
    _BUILT[fam] = dict(module=llsym.Module(ll), lib=lib, ks=ks, signed=signed, ct=ct, ll=ll)
    return _BUILT[fam]


def native(K, kernel, xs):
    """run the natively compiled kernel -> (ret, output list)"""
    n = len(xs)
    arr = (K['ct'] * max(n, 1))(*xs)
    if kernel == 'uniq':
        r = K['lib'].v_uniq(arr, arr, ctypes.c_size_t(n))
    elif kernel == 'uniq_copy':
        out = (K['ct'] * max(n, 1))()
        r = K['lib'].v_uniq(out, arr, ctypes.c_size_t(n))
        arr = out
    elif kernel == 'quicksort':
        K['lib'].v_quicksort(arr, ctypes.c_size_t(n))
        r = n
    else:
        r = K['lib'].v_sort_int_nodups(arr, ctypes.c_size_t(n))
    return int(r), [int(arr[i]) for i in range(n)]


def interp(K, kernel, vals, budget=400000, timeout=None, pre=()):
    """run the IR of the kernel on vals (z3 values) -> (outcomes, stats, base address)"""
    it = llsym.Interp(K['module'], budget=budget, timeout=timeout)
    mem = llsym.Memory()
    n = len(vals)
    base = mem.alloc(n * K['ks'], 'array')
    for i, v in enumerate(vals):
        mem.store(base + i * K['ks'], K['ks'], v)
    p, nn = llsym.bv(base, 64), llsym.bv(n, 64)
    if kernel == 'uniq_copy':
        # as after the radix sort: the sorted data is in the scratch buffer, uniq copies it back
        obase = mem.alloc(n * K['ks'], 'array')
        for i in range(n):
            mem.store(obase + i * K['ks'], K['ks'], llsym.bv(0, K['ks'] * 8))
        outs = it.run('v_uniq', [llsym.bv(obase, 64), p, nn], mem, pre)
        return outs, it.stats, obase
    fn, args = {'uniq': ('v_uniq', [p, p, nn]), 'quicksort': ('v_quicksort', [p, nn]), 'sort_int_nodups': ('v_sort_int_nodups', [p, nn])}[kernel]
    outs = it.run(fn, args, mem, pre)
    return outs, it.stats, base


def lt(K):
    return (lambda a, b: a < b) if K['signed'] else z3.ULT


def le(K):
    return (lambda a, b: a <= b) if K['signed'] else z3.ULE


def validate(K, kernel, n, rnd, rounds=40):
    """translator validation: the interpreter, run on concrete words, must agree with the compiled function"""
    w = K['ks'] * 8
    for _ in range(rounds):
        m = rnd.randrange(0 if kernel in ('uniq', 'uniq_copy') else 1, n + 1)     # the only caller passes n >= 1 to the sorts
        pool = [rnd.randrange(0, 1 << w) for _ in range(3)] + [0, (1 << w) - 1, 1 << (w - 1), (1 << (w - 1)) - 1]
        xs = [rnd.choice(pool) for _ in range(m)]
        if kernel in ('uniq', 'uniq_copy'):
            key = (lambda v: v - (1 << w) if v >> (w - 1) else v) if K['signed'] else (lambda v: v)
            xs = sorted(xs, key=key)
        cxs = [x - (1 << w) if (K['signed'] and x >> (w - 1)) else x for x in xs]
        r_nat, out_nat = native(K, kernel, cxs)
        outs, _, base = interp(K, kernel, [llsym.bv(x, w) for x in xs])
        rets = [o for o in outs if o.kind == 'ret']
        if len(rets) != 1 or len(outs) != 1:
            return 'interpreter produced %r on concrete input %r' % ([(o.kind, o.detail) for o in outs], cxs)
        o = rets[0]
        r_int = z3.simplify(o.ret).as_long() if o.ret is not None else m
        got = [z3.simplify(o.mem.load(base + i * K['ks'], K['ks'])).as_long() for i in range(r_int if kernel != 'quicksort' else m)]
        want = [v & ((1 << w) - 1) for v in out_nat[:len(got)]]
        if r_int != r_nat or got != want:
            return 'interpreter %r/%r differs from the compiled function %r/%r on %r' % (r_int, got, r_nat, want, cxs)
    return None


def run(ob, scratch):
    if ob['params'].get('kernel') == 'conv':
        return run_conv(ob, scratch)
    if ob['params'].get('kernel') in ('leaf_get', 'leaf_range'):
        return run_leaf(ob, scratch)
    if ob['params'].get('kernel') == 'leaf_set':
        return run_leaf_set(ob, scratch)
    if ob['params'].get('kernel') == 'tree_get':
        return run_tree_get(ob, scratch)
    if ob['params'].get('kernel') in ('tree_set', 'tree_range'):
        from engine import llsym_tree
        return getattr(llsym_tree, 'run_' + ob['params']['kernel'])(ob, scratch)
    t0 = time.time()
    P = ob['params']
    fam, kernel, n = P['family'], P['kernel'], P['n']
    K = build(fam, scratch)
    res = {'id': ob['id'], 'names': ['x%d' % i for i in range(n)], 'twin_refuted': False, 'witness': None, 'twin_s': 0}
    rnd = random.Random(1234)
    bad = validate(K, kernel, n, rnd)
    if bad:
        res.update(verdict='error', detail='translator validation failed: ' + bad, paths=0, solver_queries=0, solver_s=0, wall_s=time.time() - t0)
        return res
    w = K['ks'] * 8
    xs = [z3.BitVec('x%d' % i, w) for i in range(n)]
    pre = [le(K)(xs[i], xs[i + 1]) for i in range(n - 1)] if kernel in ('uniq', 'uniq_copy') else []
    try:
        outs, stats, base = interp(K, kernel, xs, timeout=ob.get('timeout', 120), pre=pre)
    except (llsym.Unsupported, llsym.Budget) as e:
        res.update(verdict='inconclusive', detail='%s: %s' % (type(e).__name__, e), paths=0, solver_queries=0, solver_s=0, wall_s=time.time() - t0)
        return res
    s = z3.Solver()
    q = 0
    ts = 0.0
    cex = None
    detail = None
    reached = 0
    for o in outs:
        s.push()
        s.add(*o.cond)
        t1 = time.perf_counter()
        feas = str(s.check())
        q += 1
        if feas != 'sat':
            s.pop()
            ts += time.perf_counter() - t1
            if feas == 'unknown':
                detail = 'solver unknown'
                cex = 'unknown'
            continue
        if o.kind in ('assert', 'memory'):
            mdl = s.model()
            cex = {'x%d' % i: mdl.eval(xs[i], model_completion=True).as_long() for i in range(n)}
            detail = ('assertion of the C source reachable: ' if o.kind == 'assert' else 'memory error: ') + str(o.detail)
            s.pop()
            break
        if o.kind == 'dead':
            s.pop()
            continue
        reached += 1
        k = n if kernel == 'quicksort' else z3.simplify(o.ret)
        if kernel != 'quicksort':
            if not z3.is_bv_value(k):
                s.pop()
                cex, detail = 'unknown', 'symbolic return value'
                break
            k = k.as_long()
        out = [o.mem.load(base + i * K['ks'], K['ks']) for i in range(k)]
        if kernel == 'quicksort':
            post = [le(K)(out[i], out[i + 1]) for i in range(k - 1)]
            for x in xs:        # same multiset
                post.append(z3.Sum([z3.If(y == x, 1, 0) for y in out]) == z3.Sum([z3.If(y == x, 1, 0) for y in xs]))
        else:
            post = [lt(K)(out[i], out[i + 1]) for i in range(k - 1)]
            post += [z3.Or(*[x == y for y in out]) if out else z3.BoolVal(False) for x in xs]
            post += [z3.Or(*[y == x for x in xs]) for y in out]
        r = str(s.check(z3.Not(z3.And(*post)) if post else z3.BoolVal(False)))
        q += 1
        ts += time.perf_counter() - t1
        if r == 'sat':
            mdl = s.model()
            cex = {'x%d' % i: mdl.eval(xs[i], model_completion=True).as_long() for i in range(n)}
            detail = 'post-condition of %s violated' % kernel
            s.pop()
            break
        if r != 'unsat':
            cex, detail = 'unknown', 'solver unknown on the post-condition'
            s.pop()
            break
        s.pop()
    if cex == 'unknown':
        verdict, cex = 'inconclusive', None
    elif cex is not None:
        verdict = 'counterexample'
        if K['signed']:
            cex = {k_: (v - (1 << w) if v >> (w - 1) else v) for k_, v in cex.items()}
    elif reached == 0 and n > 0:
        verdict, detail = 'inconclusive', 'vacuous: no feasible returning path'
    else:
        verdict = 'confirmed'
    res.update(verdict=verdict, detail=detail, cex=cex, paths=len(outs), solver_queries=stats['queries'] + q,
               solver_s=round(stats['solver_s'] + ts, 3), wall_s=round(time.time() - t0, 2), twin_refuted=reached > 0,
               instr=stats['instr'], witness={'returning_paths': reached})
    return res


# ---------------------------------------------------------------------------
# conversion layer (C13): COPY_KEY_FROM_ARG / COPY_VALUE_FROM_ARG of the real family source, argument = a fake
# PyLong whose value is an UNBOUNDED z3 integer (or an object that is not an int)

CSRC = os.path.join(os.path.dirname(KSRC), 'verif_conv.c')
TYPE_ERROR, OVERFLOW_ERROR = 0xE0010, 0xE0020
LONG_MIN, LONG_MAX = -2 ** 63, 2 ** 63 - 1
_CONV = {}
KEYT = {'I': (32, True), 'U': (32, False), 'L': (64, True), 'Q': (64, False)}


def build_conv(fam, scratch):
    if fam in _CONV:
        return _CONV[fam]
    inc = sysconfig.get_paths()['include']
    d = os.path.join(scratch, 'kernels')
    os.makedirs(d, exist_ok=True)
    ll = os.path.join(d, 'c_%s_%d.ll' % (fam, os.getpid()))
    subprocess.run(['clang-14', '-S', '-emit-llvm', '-O1', '-fno-inline-functions', '-fno-unroll-loops', '-fno-vectorize',
                    '-fno-slp-vectorize', '-w', '-DEXCLUDE_INTSET_SUPPORT', '-DFAMILY_C="_%sBTree.c"' % fam, '-I' + inc,
                    '-I' + os.path.join(REPO, 'include', 'persistent'), '-I' + SRC, CSRC, '-o', ll], check=True, capture_output=True)
    _CONV[fam] = llsym.Module(ll)
    return _CONV[fam]


def conv_setup(module, N, is_long, timeout):
    """interpreter + memory with a fake object, error-indicator cell and CPython API contract stubs"""
    it = llsym.Interp(module, timeout=timeout)
    mem = llsym.Memory()
    typ = mem.alloc(416, 'type')
    mem.store(typ + 168, 8, z3.If(is_long, llsym.bv(1 << 24, 64), llsym.bv(0, 64)))       # tp_flags: Py_TPFLAGS_LONG_SUBCLASS
    obj = mem.alloc(32, 'object')
    mem.store(obj, 8, llsym.bv(1, 64))
    mem.store(obj + 8, 8, llsym.bv(typ, 64))
    g = mem.alloc(64, 'globals')
    for i, (name, val) in enumerate((('PyExc_TypeError', TYPE_ERROR), ('PyExc_OverflowError', OVERFLOW_ERROR))):
        mem.store(g + 8 * i, 8, llsym.bv(val, 64))
        it.globals[name] = g + 8 * i
    err = mem.alloc(8, 'error-indicator')
    mem.store(err, 8, llsym.bv(0, 64))
    out = mem.alloc(8, 'out')
    mem.store(out, 8, llsym.bv(0x5555555555555555, 64))

    def get_err(m_):
        return m_.load(err, 8)

    def in_range(lo, hi):
        return z3.And(N >= lo, N <= hi)

    def as_long(itp, args, m_, cond):
        ok = in_range(LONG_MIN, LONG_MAX)
        m_.store(err, 8, z3.If(ok, get_err(m_), llsym.bv(OVERFLOW_ERROR, 64)))
        return z3.If(ok, z3.Int2BV(N, 64), llsym.bv(-1, 64))

    def as_longlong_overflow(itp, args, m_, cond):
        ok = in_range(LONG_MIN, LONG_MAX)
        p = itp.conc(args[1])
        m_.store(p, 4, z3.If(ok, llsym.bv(0, 32), z3.If(N > LONG_MAX, llsym.bv(1, 32), llsym.bv(-1, 32))))
        return z3.If(ok, z3.Int2BV(N, 64), llsym.bv(-1, 64))

    def as_ulonglong(itp, args, m_, cond):
        ok = in_range(0, 2 ** 64 - 1)
        m_.store(err, 8, z3.If(ok, get_err(m_), llsym.bv(OVERFLOW_ERROR, 64)))
        return z3.If(ok, z3.Int2BV(N, 64), llsym.bv(-1, 64))

    def occurred(itp, args, m_, cond):
        return get_err(m_)

    def matches(itp, args, m_, cond):
        return z3.If(get_err(m_) == args[0], llsym.bv(1, 32), llsym.bv(0, 32))

    def clear(itp, args, m_, cond):
        m_.store(err, 8, llsym.bv(0, 64))

    def setstring(itp, args, m_, cond):
        m_.store(err, 8, args[0])

    it.externs.update(PyLong_AsLong=as_long, PyLong_AsLongLongAndOverflow=as_longlong_overflow,
                      PyLong_AsUnsignedLongLong=as_ulonglong, PyErr_Occurred=occurred, PyErr_ExceptionMatches=matches,
                      PyErr_Clear=clear, PyErr_SetString=setstring)
    return it, mem, obj, out, err


def run_conv(ob, scratch):
    t0 = time.time()
    P = ob['params']
    fam, which = P['family'], P['which']          # which: 'key' | 'value'
    res = {'id': ob['id'], 'names': ['n', 'is_int'], 'twin_refuted': False, 'witness': None, 'twin_s': 0}
    ch = fam[0] if which == 'key' else fam[1]
    bits, signed = KEYT[ch]
    lo, hi = (-(1 << (bits - 1)), (1 << (bits - 1)) - 1) if signed else (0, (1 << bits) - 1)
    N = z3.Int('n')
    is_long = z3.Bool('is_int')
    try:
        module = build_conv(fam, scratch)
        it, mem, obj, out, err = conv_setup(module, N, is_long, ob.get('timeout', 120))
        outs = it.run('v_key_from_arg' if which == 'key' else 'v_value_from_arg', [llsym.bv(obj, 64), llsym.bv(out, 64)], mem)
    except (llsym.Unsupported, llsym.Budget) as e:
        res.update(verdict='inconclusive', detail='%s: %s' % (type(e).__name__, e), paths=0, solver_queries=0, solver_s=0, wall_s=time.time() - t0)
        return res
    s = z3.Solver()
    q, ts, cex, detail, reached = 0, 0.0, None, None, 0
    accepted_paths = rejected_paths = 0
    for o in outs:
        s.push()
        s.add(*o.cond)
        t1 = time.perf_counter()
        feas = str(s.check())
        q += 1
        if feas != 'sat':
            s.pop()
            ts += time.perf_counter() - t1
            if feas == 'unknown':
                cex, detail = 'unknown', 'solver unknown on a path condition'
                break
            continue
        if o.kind in ('assert', 'memory'):
            cex, detail = s.model(), ('assertion reachable: ' if o.kind == 'assert' else 'memory error: ') + str(o.detail)
            s.pop()
            break
        if o.kind == 'dead':
            s.pop()
            continue
        reached += 1
        copied = o.ret
        # untouched target = the whole 8-byte initial pattern is still there
        whole = z3.simplify(o.mem.load(out, 8))
        if z3.is_bv_value(whole) and whole.as_long() == 0x5555555555555555:
            word = None
        else:
            word = o.mem.load(out, bits // 8)
        e = o.mem.load(err, 8)
        representable = z3.And(is_long, N >= lo, N <= hi)
        asint = (z3.BV2Int(word, is_signed=signed) if word is not None else None)
        post = z3.And(
            (copied != 0) == representable,
            z3.Implies(copied != 0, (asint == N) if asint is not None else z3.BoolVal(False)),
            z3.Implies(copied != 0, e == 0),
            z3.Implies(copied == 0, e == llsym.bv(TYPE_ERROR, 64)),
            z3.Implies(copied == 0, z3.BoolVal(word is None)))      # the target is not written on rejection
        r = str(s.check(z3.Not(post)))
        q += 1
        ts += time.perf_counter() - t1
        if r == 'sat':
            cex, detail = s.model(), 'conversion post-condition violated (accepted iff representable; stored word == n; TypeError otherwise; target untouched)'
            s.pop()
            break
        if r != 'unsat':
            cex, detail = 'unknown', 'solver unknown on the post-condition'
            s.pop()
            break
        if str(s.check(copied != 0)) == 'sat':
            accepted_paths += 1
        else:
            rejected_paths += 1
        s.pop()
    if cex == 'unknown':
        verdict, cex = 'inconclusive', None
    elif cex is not None:
        verdict = 'counterexample'
        cex = {'n': cex.eval(N, model_completion=True).as_long(), 'is_int': bool(cex.eval(is_long, model_completion=True))}
    elif accepted_paths == 0 or rejected_paths == 0:
        verdict, detail = 'inconclusive', 'vacuous: accepting paths %d, rejecting paths %d' % (accepted_paths, rejected_paths)
    else:
        verdict = 'confirmed'
    res.update(verdict=verdict, detail=detail, cex=cex, paths=len(outs), solver_queries=it.stats['queries'] + q,
               solver_s=round(it.stats['solver_s'] + ts, 3), wall_s=round(time.time() - t0, 2), twin_refuted=reached > 0,
               instr=it.stats['instr'], witness={'accepting_paths': accepted_paths, 'rejecting_paths': rejected_paths})
    return res


# ---------------------------------------------------------------------------
# leaf kernels of the native-key families (C01/C02/C05/C13): _bucket_get and Bucket_findRangeEnd as compiled,
# on a leaf of n symbolic native keys (strictly ascending in the family order) and an unbounded-integer argument

KEY_ERROR = 0xE0030
VALUE_ERROR = 0xE0040
FP = {'changed': 0xF0030, 'accessed': 0xF0040, 'ghostify': 0xF0050, 'setstate': 0xF0060, 'readCurrent': 0xF0080}


def leaf_setup(module, fam, N, is_long, keys, vals, size, timeout):
    it, mem, obj, out, err = conv_setup(module, N, is_long, timeout)
    kb, ksigned = KEYT[fam[0]]
    vb = KEYT[fam[1]][0] if fam[1] in KEYT else 64
    g = mem.alloc(32, 'globals2')
    for i, (name, val) in enumerate((('PyExc_KeyError', KEY_ERROR), ('PyExc_ValueError', VALUE_ERROR))):
        mem.store(g + 8 * i, 8, llsym.bv(val, 64))
        it.globals[name] = g + 8 * i
    lay = module.layout('%struct.Bucket_s')
    offs = lay[2]
    b = mem.alloc(lay[0], 'bucket')
    mem.store(b, 8, llsym.bv(1, 64))                       # ob_refcnt
    mem.store(b + 8, 8, llsym.bv(0x7770000, 64))           # ob_type (never dereferenced by these kernels)
    mem.store(b + offs[6], 4, llsym.bv(0, 32))             # state = UPTODATE, estimated_size = 0
    mem.store(b + offs[7], 4, llsym.bv(size, 32))
    mem.store(b + offs[8], 4, llsym.bv(len(keys), 32))
    mem.store(b + offs[9], 8, llsym.bv(0, 64))             # next
    ka = mem.alloc(max(size, 1) * kb // 8, 'keys')
    va = mem.alloc(max(size, 1) * vb // 8, 'values')
    for i, k in enumerate(keys):
        mem.store(ka + i * kb // 8, kb // 8, k)
    for i, v in enumerate(vals):
        mem.store(va + i * vb // 8, vb // 8, v)
    mem.store(b + offs[10], 8, llsym.bv(ka if size else 0, 64))
    mem.store(b + offs[11], 8, llsym.bv(va if size else 0, 64))
    capi = mem.alloc(module.layout('%struct.cPersistenceCAPIstruct')[0], 'cPersistenceCAPI')
    coffs = module.layout('%struct.cPersistenceCAPIstruct')[2]
    for name, idx in (('changed', 3), ('accessed', 4), ('ghostify', 5), ('setstate', 6), ('readCurrent', 8)):
        mem.store(capi + coffs[idx], 8, llsym.bv(FP[name], 64))
    gp = mem.alloc(8, 'capi-pointer')
    mem.store(gp, 8, llsym.bv(capi, 64))
    it.globals['cPersistenceCAPI'] = gp
    log = mem.alloc(8, 'capi-log')
    mem.store(log, 8, llsym.bv(0, 64))

    def logged(bit):
        def f(itp, args, m_, cond):
            m_.store(log, 8, m_.load(log, 8) | llsym.bv(bit, 64))
            return llsym.bv(0, 32)
        return f
    it.fptrs.update({FP['changed']: logged(1), FP['accessed']: logged(2), FP['ghostify']: logged(4), FP['setstate']: logged(8),
                     FP['readCurrent']: logged(16)})
    boxes = []

    def from_long(itp, args, m_, cond):
        p = m_.alloc(16, 'pylong')
        m_.store(p, 8, args[0])
        boxes.append(p)
        return llsym.bv(p, 64)

    def set_object(itp, args, m_, cond):
        m_.store(err, 8, args[0])
    it.externs.update(PyLong_FromLong=from_long, PyLong_FromLongLong=from_long, PyLong_FromUnsignedLongLong=from_long,
                      PyLong_FromUnsignedLong=from_long, PyErr_SetObject=set_object)
    return it, mem, dict(obj=obj, out=out, err=err, bucket=b, state=b + offs[6], keys=ka, values=va, log=log, kb=kb, vb=vb)


def run_leaf(ob, scratch):
    t0 = time.time()
    P = ob['params']
    fam, n, kernel = P['family'], P['n'], P['kernel']
    res = {'id': ob['id'], 'names': ['n'] + ['k%d' % i for i in range(n)], 'twin_refuted': False, 'witness': None, 'twin_s': 0}
    kb, ksigned = KEYT[fam[0]]
    vb = KEYT[fam[1]][0]
    mode = P.get('arg', 'word')
    aw = z3.BitVec('n', kb)                         # the argument as a machine word of the key type (always representable)
    if mode == 'word':
        N = z3.BV2Int(aw, is_signed=ksigned)
    else:
        N = z3.IntVal(2 ** 70 if mode == 'big' else -2 ** 70)
    is_long = z3.BoolVal(True)
    keys = [z3.BitVec('k%d' % i, kb) for i in range(n)]
    vals = [z3.BitVec('v%d' % i, vb) for i in range(n)]
    ltk = (lambda a, b: a < b) if ksigned else z3.ULT
    pre = [ltk(keys[i], keys[i + 1]) for i in range(n - 1)]
    lo, hi = (-(1 << (kb - 1)), (1 << (kb - 1)) - 1) if ksigned else (0, (1 << kb) - 1)
    try:
        module = build_conv(fam, scratch)
        it, mem, L = leaf_setup(module, fam, N, is_long, keys, vals, n + P.get('spare', 1), ob.get('timeout', 120))
        if mode == 'word':
            # CPython contract for an in-range int: the C value is the integer itself, no error (pure bit-vector reasoning)
            ext = (z3.SignExt if ksigned else z3.ZeroExt)(64 - kb, aw) if kb < 64 else aw
            same = lambda itp, args, m_, cond: ext

            def ll_overflow(itp, args, m_, cond):
                m_.store(itp.conc(args[1]), 4, llsym.bv(0, 32))
                return ext
            it.externs.update(PyLong_AsLong=same, PyLong_AsUnsignedLongLong=same, PyLong_AsLongLongAndOverflow=ll_overflow)
        if kernel == 'leaf_get':
            outs = it.run('_bucket_get', [llsym.bv(L['bucket'], 64), llsym.bv(L['obj'], 64), llsym.bv(P['has_key'], 32)], mem, pre)
        else:
            mem.store(L['out'], 4, llsym.bv(0x55555555, 32))
            outs = it.run('Bucket_findRangeEnd', [llsym.bv(L['bucket'], 64), llsym.bv(L['obj'], 64), llsym.bv(P['low'], 32),
                                                   llsym.bv(P['exclude'], 32), llsym.bv(L['out'], 64)], mem, pre)
    except (llsym.Unsupported, llsym.Budget) as e:
        res.update(verdict='inconclusive', detail='%s: %s' % (type(e).__name__, e), paths=0, solver_queries=0, solver_s=0, wall_s=time.time() - t0)
        return res
    s = OSolver()
    s.add(*pre)
    q, ts, cex, detail, reached = 0, 0.0, None, None, 0
    for o in outs:
        s.push()
        s.add(*o.cond)
        t1 = time.perf_counter()
        feas = str(s.check())
        q += 1
        if feas != 'sat':
            s.pop()
            ts += time.perf_counter() - t1
            if feas == 'unknown':
                cex, detail = 'unknown', 'solver unknown on a path condition'
                break
            continue
        if o.kind in ('assert', 'memory'):
            cex, detail = s.model(), ('assertion reachable: ' if o.kind == 'assert' else 'memory error: ') + str(o.detail)
            s.pop()
            break
        if o.kind == 'dead':
            s.pop()
            continue
        reached += 1
        e = o.mem.load(L['err'], 8)
        state = o.mem.load(L['state'], 4)
        unchanged = [o.mem.load(L['keys'] + i * kb // 8, kb // 8) == keys[i] for i in range(n)] + \
                    [o.mem.load(L['values'] + i * vb // 8, vb // 8) == vals[i] for i in range(n)]
        changed_called = (o.mem.load(L['log'], 8) & 1) != 0
        representable = z3.BoolVal(mode == 'word')
        found = [keys[i] == aw for i in range(n)] if mode == 'word' else [z3.BoolVal(False)] * n
        anyfound = z3.Or(*found) if found else z3.BoolVal(False)
        ret = o.ret
        common = [state == 0, z3.Not(changed_called)] + unchanged     # pin released, leaf untouched, no change notification
        if kernel == 'leaf_get':
            # the returned object, if any, is one of the boxes PyLong_FromLong made on this path
            retval = None
            rs = z3.simplify(ret)
            if z3.is_bv_value(rs) and rs.as_long() != 0:
                retval = o.mem.load(rs.as_long(), 8)
            if P['has_key'] == 0:
                want = z3.And(z3.Implies(z3.Not(representable), z3.And(ret == 0, e == llsym.bv(TYPE_ERROR, 64))),
                              z3.Implies(z3.And(representable, z3.Not(anyfound)), z3.And(ret == 0, e == llsym.bv(KEY_ERROR, 64))),
                              *[z3.Implies(found[i], z3.And(ret != 0, e == 0,
                                                           (retval == ((z3.SignExt if KEYT[fam[1]][1] else z3.ZeroExt)(64 - vb, vals[i]) if vb < 64 else vals[i]))
                                                           if retval is not None else z3.BoolVal(False))) for i in range(n)])
            else:
                want = z3.And(z3.Implies(z3.Not(representable), z3.And(ret == 0, e == llsym.bv(KEY_ERROR, 64))),
                              z3.Implies(representable, z3.And(ret != 0, e == 0,
                                                               (retval == z3.If(anyfound, llsym.bv(P['has_key'], 64), llsym.bv(0, 64)))
                                                               if retval is not None else z3.BoolVal(False))))
        else:
            off = o.mem.load(L['out'], 4)
            low, excl = P['low'], P['exclude']
            # documented result: 1 with *offset = index of the range end, 0 if no key qualifies, -1 on error
            gt = (lambda a_, b_: a_ > b_) if ksigned else z3.UGT
            ge = (lambda a_, b_: a_ >= b_) if ksigned else z3.UGE
            if low:
                cands = [(gt(keys[i], aw) if excl else ge(keys[i], aw)) for i in range(n)]
                idx = [z3.And(cands[i], *[z3.Not(cands[j]) for j in range(i)]) for i in range(n)]      # first qualifying
            else:
                cands = [(gt(aw, keys[i]) if excl else ge(aw, keys[i])) for i in range(n)]
                idx = [z3.And(cands[i], *[z3.Not(cands[j]) for j in range(i + 1, n)]) for i in range(n)]   # last qualifying
            none = z3.And(*[z3.Not(c) for c in cands]) if cands else z3.BoolVal(True)
            want = z3.And(z3.Implies(z3.Not(representable), z3.And(ret == llsym.bv(-1, 32), e != 0)),
                          z3.Implies(z3.And(representable, none), z3.And(ret == 0, e == 0)),
                          *[z3.Implies(z3.And(representable, idx[i]), z3.And(ret == 1, off == i, e == 0)) for i in range(n)])
        r = str(s.check(z3.Not(z3.And(want, *common))))
        q += 1
        ts += time.perf_counter() - t1
        if r == 'sat':
            cex, detail = s.model(), '%s post-condition violated (result / error indicator / pin released / leaf untouched)' % kernel
            s.pop()
            break
        if r != 'unsat':
            cex, detail = 'unknown', 'solver unknown on the post-condition'
            s.pop()
            break
        s.pop()
    if cex == 'unknown':
        verdict, cex = 'inconclusive', None
    elif cex is not None:
        verdict = 'counterexample'
        mdl = cex
        nv = mdl.eval(aw, model_completion=True).as_long()
        cex = {'n': (nv - (1 << kb) if (ksigned and nv >> (kb - 1)) else nv) if mode == 'word' else (2 ** 70 if mode == 'big' else -2 ** 70)}
        for i in range(n):
            v = mdl.eval(keys[i], model_completion=True).as_long()
            cex['k%d' % i] = v - (1 << kb) if (ksigned and v >> (kb - 1)) else v
    elif reached == 0:
        verdict, detail = 'inconclusive', 'vacuous: no feasible returning path'
    else:
        verdict = 'confirmed'
    res.update(verdict=verdict, detail=detail, cex=cex, paths=len(outs), solver_queries=it.stats['queries'] + q,
               solver_s=round(it.stats['solver_s'] + ts, 3), wall_s=round(time.time() - t0, 2), twin_refuted=reached > 0,
               instr=it.stats['instr'], witness={'returning_paths': reached})
    return res


# ---------------------------------------------------------------------------
# the mutating leaf kernel: _bucket_set (assign / insert-if-absent / delete) as compiled for the native families

def run_leaf_set(ob, scratch):
    t0 = time.time()
    P = ob['params']
    fam, n, op, spare = P['family'], P['n'], P['op'], P.get('spare', 0)
    res = {'id': ob['id'], 'names': ['n', 'v'] + ['k%d' % i for i in range(n)] + ['w%d' % i for i in range(n)], 'twin_refuted': False,
           'witness': None, 'twin_s': 0}
    kb, ksigned = KEYT[fam[0]]
    vb, vsigned = KEYT[fam[1]]
    aw, vw = z3.BitVec('n', kb), z3.BitVec('v', vb)
    keys = [z3.BitVec('k%d' % i, kb) for i in range(n)]
    vals = [z3.BitVec('w%d' % i, vb) for i in range(n)]
    ltk = (lambda a_, b_: a_ < b_) if ksigned else z3.ULT
    pre = [ltk(keys[i], keys[i + 1]) for i in range(n - 1)]
    try:
        module = build_conv(fam, scratch)
        it, mem, L = leaf_setup(module, fam, z3.IntVal(0), z3.BoolVal(True), keys, vals, n + spare, ob.get('timeout', 120))
        # a second fake int object for the value; the conversion stubs answer per object
        vobj = mem.alloc(32, 'object')
        mem.store(vobj, 8, llsym.bv(1, 64))
        mem.store(vobj + 8, 8, mem.load(L['obj'] + 8, 8))
        words = {L['obj']: ((z3.SignExt if ksigned else z3.ZeroExt)(64 - kb, aw) if kb < 64 else aw),
                 vobj: ((z3.SignExt if vsigned else z3.ZeroExt)(64 - vb, vw) if vb < 64 else vw)}

        def as_word(itp, args, m_, cond):
            return words[itp.conc(args[0])]

        def as_word_ovf(itp, args, m_, cond):
            m_.store(itp.conc(args[1]), 4, llsym.bv(0, 32))
            return words[itp.conc(args[0])]

        def realloc(itp, args, m_, cond):
            p_, sz = itp.conc(args[0]), itp.conc(args[1])
            new = m_.alloc(sz, 'heap')
            if p_:
                old = m_.regions[p_]
                for off, c in list(old[2].items()):
                    if off + c[1] <= sz:
                        m_.store(new + off, c[1], c[0])
                m_.free(p_)
            return llsym.bv(new, 64)

        it.externs.update(PyLong_AsLong=as_word, PyLong_AsUnsignedLongLong=as_word, PyLong_AsLongLongAndOverflow=as_word_ovf,
                          realloc=realloc)
        chg = mem.alloc(4, 'changed-flag')
        mem.store(chg, 4, llsym.bv(0, 32))
        args = [llsym.bv(L['bucket'], 64), llsym.bv(L['obj'], 64), llsym.bv(0 if op == 'delete' else vobj, 64),
                llsym.bv(1 if op == 'insert' else 0, 32), llsym.bv(0, 32), llsym.bv(chg, 64)]
        outs = it.run('_bucket_set', args, mem, pre)
    except (llsym.Unsupported, llsym.Budget) as e:
        res.update(verdict='inconclusive', detail='%s: %s' % (type(e).__name__, e), paths=0, solver_queries=0, solver_s=0, wall_s=time.time() - t0)
        return res
    lay = module.layout('%struct.Bucket_s')[2]
    s = OSolver()
    s.add(*pre)
    q, ts, cex, detail, reached = 0, 0.0, None, None, 0
    for o in outs:
        s.push()
        s.add(*o.cond)
        t1 = time.perf_counter()
        feas = str(s.check())
        q += 1
        if feas != 'sat':
            s.pop()
            ts += time.perf_counter() - t1
            if feas == 'unknown':
                cex, detail = 'unknown', 'solver unknown on a path condition'
                break
            continue
        if o.kind in ('assert', 'memory'):
            cex, detail = s.model(), ('assertion reachable: ' if o.kind == 'assert' else 'memory error: ') + str(o.detail)
            s.pop()
            break
        if o.kind == 'dead':
            s.pop()
            continue
        reached += 1
        b = L['bucket']
        ret = o.ret
        e = o.mem.load(L['err'], 8)
        state = o.mem.load(L['state'], 4)
        flag = o.mem.load(chg, 4)
        notified = (o.mem.load(L['log'], 8) & 1) != 0
        ln = z3.simplify(o.mem.load(b + lay[8], 4))
        sz = z3.simplify(o.mem.load(b + lay[7], 4))
        if not (z3.is_bv_value(ln) and z3.is_bv_value(sz)):
            cex, detail = 'unknown', 'symbolic length'
            s.pop()
            break
        ln, sz = ln.as_long(), sz.as_long()
        kp = z3.simplify(o.mem.load(b + lay[10], 8)).as_long()
        vp = z3.simplify(o.mem.load(b + lay[11], 8)).as_long()
        try:
            nk = [o.mem.load(kp + i * kb // 8, kb // 8) for i in range(ln)]
            nv = [o.mem.load(vp + i * vb // 8, vb // 8) for i in range(ln)]
        except llsym.MemError as me:
            cex, detail = s.model(), 'the leaf points at memory it does not own: %s' % me
            s.pop()
            break
        found = [keys[i] == aw for i in range(n)]
        anyf = z3.Or(*found) if found else z3.BoolVal(False)
        asc = z3.And(*[ltk(nk[i], nk[i + 1]) for i in range(ln - 1)]) if ln > 1 else z3.BoolVal(True)

        def has(k_, v_):
            return z3.Or(*[z3.And(nk[j] == k_, nv[j] == v_) for j in range(ln)]) if ln else z3.BoolVal(False)
        same_arrays = z3.And(ln == n, *[z3.And(nk[i] == keys[i], nv[i] == vals[i]) for i in range(min(n, ln))])
        cases = []
        for i in range(n):
            if op == 'set':
                exp = z3.And(ret == 0, ln == n, e == 0,
                             *[z3.And(nk[j] == keys[j], nv[j] == (vw if j == i else vals[j])) for j in range(min(n, ln))],
                             (flag == 1) == (vals[i] != vw), notified == (vals[i] != vw))
            elif op == 'insert':
                exp = z3.And(ret == 0, same_arrays, e == 0, flag == 0, z3.Not(notified))
            else:
                exp = z3.And(ret == 1, ln == n - 1, e == 0, flag == 1, notified, asc,
                             *[has(keys[j], vals[j]) for j in range(n) if j != i],
                             *([sz == 0, kp == 0, vp == 0] if n == 1 else []))
            cases.append(z3.Implies(found[i], exp))
        if op == 'delete':
            cases.append(z3.Implies(z3.Not(anyf), z3.And(ret == llsym.bv(-1, 32), e == llsym.bv(KEY_ERROR, 64), same_arrays, flag == 0, z3.Not(notified))))
        else:
            cases.append(z3.Implies(z3.Not(anyf), z3.And(ret == 1, ln == n + 1, e == 0, flag == 1, notified, asc, has(aw, vw),
                                                         *[has(keys[j], vals[j]) for j in range(n)])))
        post = z3.And(state == 0, ln <= sz if True else True, *cases)
        r = str(s.check(z3.Not(post)))
        q += 1
        ts += time.perf_counter() - t1
        if r == 'sat':
            cex, detail = s.model(), '_bucket_set post-condition violated (%s: result / contents / change flag / notification / pin)' % op
            s.pop()
            break
        if r != 'unsat':
            cex, detail = 'unknown', 'solver unknown on the post-condition'
            s.pop()
            break
        s.pop()
    if cex == 'unknown':
        verdict, cex = 'inconclusive', None
    elif cex is not None:
        verdict = 'counterexample'
        mdl = cex

        def gv(x, bits, sg):
            v_ = mdl.eval(x, model_completion=True).as_long()
            return v_ - (1 << bits) if (sg and v_ >> (bits - 1)) else v_
        cex = {'n': gv(aw, kb, ksigned), 'v': gv(vw, vb, vsigned)}
        for i in range(n):
            cex['k%d' % i] = gv(keys[i], kb, ksigned)
            cex['w%d' % i] = gv(vals[i], vb, vsigned)
    elif reached == 0:
        verdict, detail = 'inconclusive', 'vacuous: no feasible returning path'
    else:
        verdict = 'confirmed'
    res.update(verdict=verdict, detail=detail, cex=cex, paths=len(outs), solver_queries=it.stats['queries'] + q,
               solver_s=round(it.stats['solver_s'] + ts, 3), wall_s=round(time.time() - t0, 2), twin_refuted=reached > 0,
               instr=it.stats['instr'], witness={'returning_paths': reached})
    return res


# ---------------------------------------------------------------------------
# tree-level lookup of the native-key families: _BTree_get on a fake multi-level tree built from a catalogue template

T_TYPE, B_TYPE = 0x7770000, 0x7780000


def tree_build(module, mem, fam, tpl, keys, vals):
    """allocate BTree_s / Bucket_s structs for a template (engine.shapes form) with symbolic key words per rank.
    -> address of the root, list of (address of state field) of every node, list of (key array, value array, ranks) of leaves"""
    kb = KEYT[fam[0]][0]
    vb = KEYT[fam[1]][0]
    blay, tlay, ilay = module.layout('%struct.Bucket_s'), module.layout('%struct.BTree_s'), module.layout('%struct.BTreeItem_s')
    states, leaves = [], []

    def header(addr, typ, offs):
        mem.store(addr, 8, llsym.bv(1, 64))
        mem.store(addr + 8, 8, llsym.bv(typ, 64))
        mem.store(addr + offs[6], 4, llsym.bv(0, 32))
        states.append(addr + offs[6])

    def leaf(ranks):
        b = mem.alloc(blay[0], 'bucket')
        header(b, B_TYPE, blay[2])
        n = len(ranks)
        mem.store(b + blay[2][7], 4, llsym.bv(n, 32))
        mem.store(b + blay[2][8], 4, llsym.bv(n, 32))
        mem.store(b + blay[2][9], 8, llsym.bv(0, 64))
        ka, va = mem.alloc(max(n, 1) * kb // 8, 'keys'), mem.alloc(max(n, 1) * vb // 8, 'values')
        for i, r in enumerate(ranks):
            mem.store(ka + i * kb // 8, kb // 8, keys[r])
            mem.store(va + i * vb // 8, vb // 8, vals[r])
        mem.store(b + blay[2][10], 8, llsym.bv(ka, 64))
        mem.store(b + blay[2][11], 8, llsym.bv(va, 64))
        leaves.append((ka, va, ranks))
        return b

    def node(t):
        if t[0] == 'B':
            return leaf(t[1])
        if t[0] == 'T1':
            kids, seps = [('B', t[1])], []
        else:
            kids, seps = t[1][::2], t[1][1::2]
        a = mem.alloc(tlay[0], 'btree')
        header(a, T_TYPE, tlay[2])
        n = len(kids)
        mem.store(a + tlay[2][7], 4, llsym.bv(n, 32))
        mem.store(a + tlay[2][8], 4, llsym.bv(n, 32))
        data = mem.alloc(n * ilay[0], 'items')
        first = None
        for i, k in enumerate(kids):
            c = node(k)
            if i == 0:
                first = c
            mem.store(data + i * ilay[0] + ilay[2][0], kb // 8, keys[seps[i - 1]] if i else llsym.bv(0, kb))
            mem.store(data + i * ilay[0] + ilay[2][1], 8, llsym.bv(c, 64))
        mem.store(a + tlay[2][9], 8, llsym.bv(0, 64))          # firstbucket: not used by lookups
        mem.store(a + tlay[2][10], 8, llsym.bv(data, 64))
        mem.store(a + tlay[2][11], 8, llsym.bv(0, 64))
        mem.store(a + tlay[2][12], 8, llsym.bv(0, 64))
        return a
    root = node(tpl) if tpl[0] != 'E' else None
    return root, states, leaves


def run_tree_get(ob, scratch):
    from engine import shapes as shp
    t0 = time.time()
    P = ob['params']
    fam, tpl, hk = P['family'], P['tpl'], P['has_key']
    tpl = _tup(tpl)
    m = shp.n_ranks(tpl)
    res = {'id': ob['id'], 'names': ['n'] + ['k%d' % i for i in range(m)], 'twin_refuted': False, 'witness': None, 'twin_s': 0}
    kb, ksigned = KEYT[fam[0]]
    vb, vsigned = KEYT[fam[1]]
    aw = z3.BitVec('n', kb)
    keys = [z3.BitVec('k%d' % i, kb) for i in range(m)]
    vals = [z3.BitVec('w%d' % i, vb) for i in range(m)]
    ltk = (lambda a_, b_: a_ < b_) if ksigned else z3.ULT
    pre = [ltk(keys[i], keys[i + 1]) for i in range(m - 1)]
    try:
        module = build_conv(fam, scratch)
        it, mem, L = leaf_setup(module, fam, z3.IntVal(0), z3.BoolVal(True), [], [], 0, ob.get('timeout', 120))
        ext = (z3.SignExt if ksigned else z3.ZeroExt)(64 - kb, aw) if kb < 64 else aw
        same = lambda itp, args, m_, cond: ext

        def ll_overflow(itp, args, m_, cond):
            m_.store(itp.conc(args[1]), 4, llsym.bv(0, 32))
            return ext
        it.externs.update(PyLong_AsLong=same, PyLong_AsUnsignedLongLong=same, PyLong_AsLongLongAndOverflow=ll_overflow)
        root, states, leaves = tree_build(module, mem, fam, tpl, keys, vals)
        outs = it.run('_BTree_get', [llsym.bv(root, 64), llsym.bv(L['obj'], 64), llsym.bv(hk, 32), llsym.bv(1, 32)], mem, pre)
    except (llsym.Unsupported, llsym.Budget) as e:
        res.update(verdict='inconclusive', detail='%s: %s' % (type(e).__name__, e), paths=0, solver_queries=0, solver_s=0, wall_s=time.time() - t0)
        return res
    stored = sorted({r for _, _, ranks in leaves for r in ranks})
    s = OSolver()
    s.add(*pre)
    q, ts, cex, detail, reached = 0, 0.0, None, None, 0
    for o in outs:
        s.push()
        s.add(*o.cond)
        t1 = time.perf_counter()
        feas = str(s.check())
        q += 1
        if feas != 'sat':
            s.pop()
            ts += time.perf_counter() - t1
            if feas == 'unknown':
                cex, detail = 'unknown', 'solver unknown on a path condition'
                break
            continue
        if o.kind in ('assert', 'memory'):
            cex, detail = s.model(), ('assertion reachable: ' if o.kind == 'assert' else 'memory error: ') + str(o.detail)
            s.pop()
            break
        if o.kind == 'dead':
            s.pop()
            continue
        reached += 1
        e = o.mem.load(L['err'], 8)
        ret = o.ret
        retval = None
        rs = z3.simplify(ret)
        if z3.is_bv_value(rs) and rs.as_long() != 0:
            retval = o.mem.load(rs.as_long(), 8)
        unpinned = [o.mem.load(a_, 4) == 0 for a_ in states]
        untouched = [o.mem.load(ka + i * kb // 8, kb // 8) == keys[r] for ka, va, ranks in leaves for i, r in enumerate(ranks)]
        found = {r: keys[r] == aw for r in stored}
        anyf = z3.Or(*found.values()) if found else z3.BoolVal(False)
        if hk == 0:
            want = z3.And(z3.Implies(z3.Not(anyf), z3.And(ret == 0, e == llsym.bv(KEY_ERROR, 64))),
                          *[z3.Implies(found[r], z3.And(ret != 0, e == 0,
                                                       (retval == ((z3.SignExt if vsigned else z3.ZeroExt)(64 - vb, vals[r]) if vb < 64 else vals[r]))
                                                       if retval is not None else z3.BoolVal(False))) for r in stored])
        else:
            want = z3.And(ret != 0, e == 0, (z3.If(anyf, retval != 0, retval == 0)) if retval is not None else z3.BoolVal(False))
        r_ = str(s.check(z3.Not(z3.And(want, *unpinned, *untouched))))
        q += 1
        ts += time.perf_counter() - t1
        if r_ == 'sat':
            cex, detail = s.model(), '_BTree_get post-condition violated (found iff stored in a leaf / value / KeyError / all nodes unpinned / untouched)'
            s.pop()
            break
        if r_ != 'unsat':
            cex, detail = 'unknown', 'solver unknown on the post-condition'
            s.pop()
            break
        s.pop()
    if cex == 'unknown':
        verdict, cex = 'inconclusive', None
    elif cex is not None:
        verdict = 'counterexample'
        mdl = cex

        def gv(x):
            v_ = mdl.eval(x, model_completion=True).as_long()
            return v_ - (1 << kb) if (ksigned and v_ >> (kb - 1)) else v_
        cex = {'n': gv(aw)}
        for i in range(m):
            cex['k%d' % i] = gv(keys[i])
    elif reached == 0:
        verdict, detail = 'inconclusive', 'vacuous: no feasible returning path'
    else:
        verdict = 'confirmed'
    res.update(verdict=verdict, detail=detail, cex=cex, paths=len(outs), solver_queries=it.stats['queries'] + q,
               solver_s=round(it.stats['solver_s'] + ts, 3), wall_s=round(time.time() - t0, 2), twin_refuted=reached > 0,
               instr=it.stats['instr'], witness={'returning_paths': reached})
    return res


def _tup(x):
    return tuple(_tup(i) for i in x) if isinstance(x, (list, tuple)) else x
