"""Engine E2, tree level: the mutating and range code of the native-key families ABOVE the leaf level, interpreted
from the clang IR of the real family source on fake multi-level trees (catalogue templates) whose keys and values
are fully symbolic machine words.

  tree_set    _BTree_set (assign / insert-if-absent / delete) incl. BTree_grow, bucket_split, BTree_split,
              BTree_split_root, Bucket_deleteNextBucket, BTree_deleteNextBucket, BTree_lastBucket, _BTree_clear,
              _bucket_set, Bucket_grow as compiled for the family.
  tree_range  BTree_findRangeEnd (both ends, inclusive / exclusive) incl. Bucket_findRangeEnd, BTree_lastBucket.

Post-conditions are decided by z3 on every feasible path (one path = one outcome vector of all comparisons of
symbolic words the compiled code made); the final memory is walked by harness code (pointers and lengths are
concrete on a path, keys/values are bit-vector terms).

Contract stubs (part of the claim): PyObject_CallObject(type) / BTree_newBucket = a zero-initialised object of that
type with reference count 1; _get_max_size = the configured node sizes; _Py_Dealloc = the documented tp_dealloc of
the node types (a leaf releases its successor and frees its vectors, an interior node releases firstbucket and its
children and frees its item vector; the object's memory is dead afterwards, so any later access is a memory error);
the cPersistence function table records per object which notifications were made; PyLong_As* return the argument
word (the conversion itself is the separate C13 obligation); malloc/realloc/free = fresh regions.
"""
import time

import z3

from engine import llsym
from engine.ordabs import OSolver
from engine.llsym_run import KEYT, KEY_ERROR, FP, build_conv, conv_setup

T_TYPE, B_TYPE = 0x7770000, 0x7780000
S_INTERNAL, S_LEAF = 0x5550010, 0x5550020


def _tup(x):
    return tuple(_tup(i) for i in x) if isinstance(x, (list, tuple)) else x


class Tree:
    """fake BTree_s / Bucket_s structs for a template, with reference counts, leaf chain and firstbucket pointers
    exactly as the real code maintains them"""

    def __init__(self, module, mem, fam, is_set=False):
        self.module, self.fam, self.is_set = module, fam, is_set
        self.kb, self.ksigned = KEYT[fam[0]]
        self.vb, self.vsigned = KEYT[fam[1]]
        self.blay, self.tlay, self.ilay = module.layout('%struct.Bucket_s'), module.layout('%struct.BTree_s'), module.layout('%struct.BTreeItem_s')
        self.nodes = []         # addresses of the nodes of the pre-state (pre-order)
        self.pre = {}           # address -> serialised pre-state (for the change-notification oracle)

    # -- allocation of zero-initialised objects (also used by the PyObject_CallObject stub)
    def new_object(self, mem, typ):
        lay = self.tlay if typ == T_TYPE else self.blay
        a = mem.alloc(lay[0], 'btree' if typ == T_TYPE else 'bucket')
        offs = lay[2]
        mem.store(a, 8, llsym.bv(1, 64))
        mem.store(a + 8, 8, llsym.bv(typ, 64))
        for f in (1, 2, 3):
            mem.store(a + offs[f], 8, llsym.bv(0, 64))      # jar, oid, cache
        mem.store(a + offs[4], 8, llsym.bv(0, 64))
        mem.store(a + offs[4] + 8, 8, llsym.bv(0, 64))
        mem.store(a + offs[5], 8, llsym.bv(0, 64))          # serial
        for f in (6, 7, 8):
            mem.store(a + offs[f], 4, llsym.bv(0, 32))      # state = UPTODATE, size, len
        for f in range(9, len(offs)):
            mem.store(a + offs[f], 8, llsym.bv(0, 64))
        return a

    def build(self, mem, tpl, keys, vals, spare=0, stored=True):
        kb, vb = self.kb, self.vb
        leaves = []

        def leaf(ranks):
            b = self.new_object(mem, B_TYPE)
            n = len(ranks)
            o = self.blay[2]
            mem.store(b + o[7], 4, llsym.bv(n + spare, 32))
            mem.store(b + o[8], 4, llsym.bv(n, 32))
            if n + spare:
                ka = mem.alloc((n + spare) * kb // 8, 'keys')
                for i, r in enumerate(ranks):
                    mem.store(ka + i * kb // 8, kb // 8, keys[r])
                mem.store(b + o[10], 8, llsym.bv(ka, 64))
                if not self.is_set:
                    va = mem.alloc((n + spare) * vb // 8, 'values')
                    for i, r in enumerate(ranks):
                        mem.store(va + i * vb // 8, vb // 8, vals[r])
                    mem.store(b + o[11], 8, llsym.bv(va, 64))
            if stored:
                mem.store(b + o[2], 8, llsym.bv(0x0A0000 + len(leaves), 64))     # an oid: the leaf is a database record
                mem.store(b + o[1], 8, llsym.bv(0x0C0000, 64))                   # and has a data manager
            if leaves:
                mem.store(leaves[-1] + o[9], 8, llsym.bv(b, 64))
                self.incref(mem, b)
            leaves.append(b)
            self.nodes.append(b)
            return b, b

        def node(t, root=False):
            if t[0] == 'B':
                return leaf(t[1])
            if t[0] == 'T1':
                kids, seps = [('B', t[1])], []
            else:
                kids, seps = t[1][::2], t[1][1::2]
            a = self.new_object(mem, T_TYPE)
            self.nodes.append(a)
            o = self.tlay[2]
            n = len(kids)
            mem.store(a + o[7], 4, llsym.bv(n + spare, 32))
            mem.store(a + o[8], 4, llsym.bv(n, 32))
            data = mem.alloc((n + spare) * self.ilay[0], 'items')
            first = None
            for i, k in enumerate(kids):
                c, fb = node(k)
                if i == 0:
                    first = fb
                mem.store(data + i * self.ilay[0] + self.ilay[2][0], kb // 8, keys[seps[i - 1]] if i else llsym.bv(0, kb))
                mem.store(data + i * self.ilay[0] + self.ilay[2][1], 8, llsym.bv(c, 64))
            mem.store(a + o[9], 8, llsym.bv(first, 64))
            self.incref(mem, first)
            mem.store(a + o[10], 8, llsym.bv(data, 64))
            if stored:
                mem.store(a + o[1], 8, llsym.bv(0x0C0000, 64))
            if stored and not root:
                mem.store(a + o[2], 8, llsym.bv(0x0B0000 + len(self.nodes), 64))
            return a, first

        if tpl[0] == 'E':
            root = self.new_object(mem, T_TYPE)
            self.nodes.append(root)
        else:
            root, _ = node(tpl, root=True)
        if tpl[0] == 'T1':
            # a root holding one embedded leaf: the leaf has no oid of its own
            for b in leaves:
                mem.store(b + self.blay[2][2], 8, llsym.bv(0, 64))
                mem.store(b + self.blay[2][1], 8, llsym.bv(0, 64))
        self.root = root
        for a in self.nodes:
            self.pre[a] = self.serial(mem, a)
        return root

    def incref(self, mem, a):
        mem.store(a, 8, z3.simplify(mem.load(a, 8) + 1))

    # -- reading a (final) memory
    @staticmethod
    def c(x):
        x = z3.simplify(x)
        if not z3.is_bv_value(x):
            raise llsym.Unsupported('symbolic structure field')
        return x.as_long()

    def typ(self, mem, a):
        return self.c(mem.load(a + 8, 8))

    def serial(self, mem, a):
        """what __getstate__ would serialise of one node: (kind, len, entries, link)"""
        if self.typ(mem, a) == B_TYPE:
            o = self.blay[2]
            n = self.c(mem.load(a + o[8], 4))
            kp, vp = self.c(mem.load(a + o[10], 8)), self.c(mem.load(a + o[11], 8))
            ks = [mem.load(kp + i * self.kb // 8, self.kb // 8) for i in range(n)]
            vs = [] if self.is_set else [mem.load(vp + i * self.vb // 8, self.vb // 8) for i in range(n)]
            return ('B', n, ks, vs, self.c(mem.load(a + o[9], 8)))
        o = self.tlay[2]
        n = self.c(mem.load(a + o[8], 4))
        dp = self.c(mem.load(a + o[10], 8))
        kids = [self.c(mem.load(dp + i * self.ilay[0] + self.ilay[2][1], 8)) for i in range(n)]
        seps = [mem.load(dp + i * self.ilay[0] + self.ilay[2][0], self.kb // 8) for i in range(1, n)]
        return ('T', n, kids, seps, self.c(mem.load(a + o[9], 8)))

    def walk(self, mem, L, I, rank=None):
        """-> dict(entries=[(key term, value term)], problems=[str], conds=[z3 bool that must hold], refs={addr: expected},
        nodes=[addr])   structural soundness of the tree rooted at self.root in `mem`"""
        problems, conds, refs, order, leaves_desc = [], [], {}, [], []
        lt0 = (lambda a_, b_: a_ < b_) if self.ksigned else z3.ULT
        le0 = (lambda a_, b_: a_ <= b_) if self.ksigned else z3.ULE
        rank = rank or {}

        def lt(a_, b_):
            # two keys of the pre-state are ordered by their ranks (the precondition says so): no solver needed
            ra, rb = rank.get(a_.get_id()), rank.get(b_.get_id())
            return z3.BoolVal(ra < rb) if (ra is not None and rb is not None) else lt0(a_, b_)

        def le(a_, b_):
            ra, rb = rank.get(a_.get_id()), rank.get(b_.get_id())
            return z3.BoolVal(ra <= rb) if (ra is not None and rb is not None) else le0(a_, b_)

        def ref(a):
            refs[a] = refs.get(a, 0) + 1

        def rec(a, depth, lo, hi, root=False):
            """-> (first leaf, list of key terms below)"""
            order.append(a)
            st = self.c(mem.load(a + (self.tlay if self.typ(mem, a) == T_TYPE else self.blay)[2][6], 4)) & 255
            if st not in (0, 1):
                problems.append('PIN node %#x left in persistence state %d (pin not released)' % (a, st if st < 128 else st - 256))
            if self.typ(mem, a) == B_TYPE:
                kind, n, ks, vs, nxt = self.serial(mem, a)
                o = self.blay[2]
                size = self.c(mem.load(a + o[7], 4))
                if n > size:
                    problems.append('leaf len %d > allocated size %d' % (n, size))
                if n == 0:
                    problems.append('empty leaf linked into the tree')
                if L is not None and n > L:
                    problems.append('leaf holds %d > max_leaf_size keys' % n)
                kp, vp = self.c(mem.load(a + o[10], 8)), self.c(mem.load(a + o[11], 8))
                if size:
                    for p_, w in ((kp, self.kb), (vp, self.vb)):
                        if p_ == 0 and (w == self.vb and self.is_set):
                            continue
                        if p_ not in mem.regions or not mem.regions[p_][1] or mem.regions[p_][0] < size * w // 8:
                            problems.append('leaf vector is not a live block of size*width bytes')
                for i in range(n - 1):
                    conds.append(lt(ks[i], ks[i + 1]))
                for k in ks:
                    if lo is not None:
                        conds.append(le(lo, k))
                    if hi is not None:
                        conds.append(lt(k, hi))
                leaves_desc.append(a)
                return a, ks
            kind, n, kids, seps, fb = self.serial(mem, a)
            o = self.tlay[2]
            size = self.c(mem.load(a + o[7], 4))
            if n > size:
                problems.append('interior len %d > allocated size %d' % (n, size))
            dp = self.c(mem.load(a + o[10], 8))
            if size and (dp not in mem.regions or not mem.regions[dp][1] or mem.regions[dp][0] < size * self.ilay[0]):
                problems.append('item vector is not a live block of size items')
            if n == 0:
                if not root:
                    problems.append('empty interior node linked into the tree')
                if fb:
                    problems.append('empty tree with a firstbucket')
                return None, []
            if I is not None and n > (I if not root else 2 * I - 1):
                problems.append('interior node holds %d children (max_internal_size %d%s)' % (n, I, ', root' if root else ''))
            types = {self.typ(mem, k) for k in kids}
            if len(types) != 1:
                problems.append('children of mixed kinds')
            first, allk = None, []
            for i, k in enumerate(kids):
                ref(k)
                f, ks = rec(k, depth + 1, seps[i - 1] if i else lo, seps[i] if i < n - 1 else hi)
                if i == 0:
                    first = f
                allk += ks
            for i in range(len(seps) - 1):
                conds.append(lt(seps[i], seps[i + 1]))
            if fb != first:
                problems.append('firstbucket of node %#x is not the first leaf of its subtree' % a)
            if fb:
                ref(fb)
            return first, allk

        root = self.root
        refs[root] = 1
        first, _ = rec(root, 0, None, None, root=True)
        # leaf chain == leaves by descent
        chain, b, seen = [], first, 0
        while b:
            chain.append(b)
            nxt = self.c(mem.load(b + self.blay[2][9], 8))
            if nxt:
                ref(nxt)
            b = nxt
            seen += 1
            if seen > 64:
                problems.append('CHAIN leaf chain does not end')
                break
        if chain != leaves_desc:
            problems.append('CHAIN leaf chain %s differs from the leaves by descent %s' % ([hex(x) for x in chain], [hex(x) for x in leaves_desc]))
        entries = []
        for b in leaves_desc:
            kind, n, ks, vs, nxt = self.serial(mem, b)
            entries += [(ks[i], None if self.is_set else vs[i]) for i in range(n)]
        for a in order:
            rc = self.c(mem.load(a, 8))
            if rc != refs.get(a, 0):
                problems.append('REF reference count of node %#x is %d, references held: %d' % (a, rc, refs.get(a, 0)))
        # nothing may be left behind: every live node object and every live vector belongs to the tree
        owned = set(order)
        for a in order:
            if self.typ(mem, a) == B_TYPE:
                owned.add(self.c(mem.load(a + self.blay[2][10], 8)))
                owned.add(self.c(mem.load(a + self.blay[2][11], 8)))
            else:
                owned.add(self.c(mem.load(a + self.tlay[2][10], 8)))
        for b_, r_ in mem.regions.items():
            if r_[1] and b_ not in owned and r_[3] in ('btree', 'bucket', 'keys', 'values', 'items', 'heap'):
                problems.append('REF a live %s block (%d bytes) is no longer referenced by the tree (leak)' % (r_[3], r_[0]))
        conds = [c_ for c_ in conds if not z3.is_true(c_)]
        return dict(entries=entries, problems=problems, conds=conds, nodes=order)

    def changed_terms(self, mem, order):
        """for every node of the pre-state that is still part of the tree: z3 bool 'its serialised state differs'"""
        out = {}
        for a in order:
            if a not in self.pre:
                continue
            p, q = self.pre[a], self.serial(mem, a)
            if p[1] != q[1] or p[4] != q[4] or (p[0] == 'T' and p[2] != q[2]):
                out[a] = z3.BoolVal(True)
                continue
            diffs = []
            if p[0] == 'B':
                diffs = [x != y for x, y in zip(p[2] + p[3], q[2] + q[3])]
            else:
                diffs = [x != y for x, y in zip(p[3], q[3])]
            out[a] = z3.simplify(z3.Or(*diffs)) if diffs else z3.BoolVal(False)
        return out


MEMORY_ERROR = 0xE0080


def setup(module, fam, L, I, timeout, is_set=False, fail_at=None):
    it, mem, obj, out, err = conv_setup(module, z3.IntVal(0), z3.BoolVal(True), timeout)
    it.solver = OSolver()       # branch feasibility: order formulas over the symbolic words
    g = mem.alloc(64, 'globals2')
    for i, (name, val) in enumerate((('PyExc_KeyError', KEY_ERROR), ('PyExc_ValueError', 0xE0040), ('PyExc_IndexError', 0xE0050),
                                     ('max_internal_size_str', S_INTERNAL), ('max_leaf_size_str', S_LEAF),
                                     ('PyExc_AssertionError', 0xE0060), ('PyExc_RuntimeError', 0xE0070))):
        mem.store(g + 8 * i, 8, llsym.bv(val, 64))
        it.globals[name] = g + 8 * i
    capi = mem.alloc(module.layout('%struct.cPersistenceCAPIstruct')[0], 'cPersistenceCAPI')
    coffs = module.layout('%struct.cPersistenceCAPIstruct')[2]
    for name, idx in (('changed', 3), ('accessed', 4), ('ghostify', 5), ('setstate', 6), ('readCurrent', 8)):
        mem.store(capi + coffs[idx], 8, llsym.bv(FP[name], 64))
    gp = mem.alloc(8, 'capi-pointer')
    mem.store(gp, 8, llsym.bv(capi, 64))
    it.globals['cPersistenceCAPI'] = gp
    # per-object notification log: one 8-byte cell per object address (slot assigned on first use)
    NSLOT = 128
    log = mem.alloc(8 * NSLOT, 'capi-log')
    for i in range(NSLOT):
        mem.store(log + 8 * i, 8, llsym.bv(0, 64))
    slots = {}

    def slot(a):
        if a not in slots:
            if len(slots) >= NSLOT:
                raise llsym.Unsupported('notification log full')
            slots[a] = len(slots)
        return log + 8 * slots[a]

    def logged(bit):
        def f(itp, args, m_, cond):
            s_ = slot(itp.conc(args[0]))
            m_.store(s_, 8, z3.simplify(m_.load(s_, 8) | llsym.bv(bit, 64)))
            return llsym.bv(0, 32)
        return f
    def changed(itp, args, m_, cond):
        # cPersistence.c changed(): an up-to-date or sticky object that has a data manager registers with it and
        # becomes CHANGED; an object without a jar keeps its state
        a_ = itp.conc(args[0])
        s_ = slot(a_)
        m_.store(s_, 8, z3.simplify(m_.load(s_, 8) | llsym.bv(1, 64)))
        so = T.blay[2][6]                      # same offset in both node types (cPersistent_HEAD)
        st = T.c(m_.load(a_ + so, 4))
        if T.c(m_.load(a_ + T.blay[2][1], 8)) != 0 and (st & 255) in (0, 2):
            m_.store(a_ + so, 4, llsym.bv((st & ~255) | 1, 32))
        return llsym.bv(0, 32)
    it.fptrs.update({FP['changed']: changed, FP['accessed']: logged(2), FP['ghostify']: logged(4), FP['setstate']: logged(8),
                     FP['readCurrent']: logged(16)})
    T = Tree(module, mem, fam, is_set)

    def call_object(itp, args, m_, cond):
        return llsym.bv(T.new_object(m_, itp.conc(args[0])), 64)

    def new_bucket(itp, args, m_, cond):
        return llsym.bv(T.new_object(m_, B_TYPE), 64)

    def get_max_size(itp, args, m_, cond):
        return llsym.bv(I if itp.conc(args[1]) == S_INTERNAL else L, 64)

    def decref(m_, a):
        rc = T.c(m_.load(a, 8)) - 1
        m_.store(a, 8, llsym.bv(rc, 64))
        if rc == 0:
            dealloc(m_, a)

    def dealloc(m_, a):
        if T.typ(m_, a) == B_TYPE:
            o = T.blay[2]
            nxt = T.c(m_.load(a + o[9], 8))
            for f in (10, 11):
                p_ = T.c(m_.load(a + o[f], 8))
                if p_:
                    m_.free(p_)
            m_.free(a)
            if nxt:
                decref(m_, nxt)
        else:
            o = T.tlay[2]
            n = T.c(m_.load(a + o[8], 4))
            fb = T.c(m_.load(a + o[9], 8))
            dp = T.c(m_.load(a + o[10], 8))
            kids = [T.c(m_.load(dp + i * T.ilay[0] + T.ilay[2][1], 8)) for i in range(n)] if dp else []
            if dp:
                m_.free(dp)
            m_.free(a)
            if fb:
                decref(m_, fb)
            for k in kids:
                decref(m_, k)

    def py_dealloc(itp, args, m_, cond):
        dealloc(m_, itp.conc(args[0]))

    def set_object(itp, args, m_, cond):
        m_.store(err, 8, args[0])

    # allocation-failure injection (C17): the fail_at-th call of malloc/realloc on a path returns NULL.  Every
    # BTree_Malloc / BTree_Realloc makes exactly one such call, so this is the hook's countdown seen from the IR.
    acnt = mem.alloc(16, 'alloc-counter')
    mem.store(acnt, 8, llsym.bv(0, 64))
    mem.store(acnt + 8, 8, llsym.bv(0, 64))

    def refuse(m_):
        c_ = T.c(m_.load(acnt, 8))
        m_.store(acnt, 8, llsym.bv(c_ + 1, 64))
        if fail_at is not None and c_ == fail_at:
            m_.store(acnt + 8, 8, llsym.bv(1, 64))
            return True
        return False

    def malloc(itp, args, m_, cond):
        if refuse(m_):
            return llsym.bv(0, 64)
        return llsym.bv(m_.alloc(itp.conc(args[0]), 'heap'), 64)

    def no_memory(itp, args, m_, cond):
        m_.store(err, 8, llsym.bv(MEMORY_ERROR, 64))
        return llsym.bv(0, 64)

    def err_fetch(itp, args, m_, cond):
        m_.store(itp.conc(args[0]), 8, m_.load(err, 8))
        m_.store(itp.conc(args[1]), 8, llsym.bv(0, 64))
        m_.store(itp.conc(args[2]), 8, llsym.bv(0, 64))
        m_.store(err, 8, llsym.bv(0, 64))

    def err_restore(itp, args, m_, cond):
        m_.store(err, 8, args[0])

    def realloc(itp, args, m_, cond):
        if refuse(m_):
            return llsym.bv(0, 64)
        p_, sz = itp.conc(args[0]), itp.conc(args[1])
        new = m_.alloc(sz, 'heap')
        if p_:
            old = m_.regions[p_]
            for off, c in list(old[2].items()):
                if off + c[1] <= sz:
                    m_.store(new + off, c[1], c[0])
            m_.free(p_)
        return llsym.bv(new, 64)

    it.externs.update(PyObject_CallObject=call_object, BTree_newBucket=new_bucket, _get_max_size=get_max_size,
                      _Py_Dealloc=py_dealloc, PyErr_SetObject=set_object, realloc=realloc, malloc=malloc, PyErr_NoMemory=no_memory,
                      PyErr_Fetch=err_fetch, PyErr_Restore=err_restore)
    return it, mem, T, dict(obj=obj, out=out, err=err, log=log, slot=slot, acnt=acnt)


def _word_stubs(it, mem, L_, fam, aw, vw):
    kb, ksigned = KEYT[fam[0]]
    vb, vsigned = KEYT[fam[1]]
    vobj = mem.alloc(32, 'object')
    mem.store(vobj, 8, llsym.bv(1, 64))
    mem.store(vobj + 8, 8, mem.load(L_['obj'] + 8, 8))
    words = {L_['obj']: ((z3.SignExt if ksigned else z3.ZeroExt)(64 - kb, aw) if kb < 64 else aw),
             vobj: ((z3.SignExt if vsigned else z3.ZeroExt)(64 - vb, vw) if vb < 64 else vw)}

    def as_word(itp, args, m_, cond):
        return words[itp.conc(args[0])]

    def as_word_ovf(itp, args, m_, cond):
        m_.store(itp.conc(args[1]), 4, llsym.bv(0, 32))
        return words[itp.conc(args[0])]
    it.externs.update(PyLong_AsLong=as_word, PyLong_AsUnsignedLongLong=as_word, PyLong_AsLongLongAndOverflow=as_word_ovf)
    return vobj


FALLBACKS = [0]


def _cases(s, op, is_set, ents, stored_ranks, keys, vals, aw, vw, ret, e, rank, ltk, retchk=True):
    """the contents / return-code post-condition of one path as a list of z3 bools.  The compiled code moves words
    around without computing on them, so the final leaf entries are syntactically the pre-state's key/value terms and
    the argument terms: the expected sorted-map result is matched term by term and only the facts about the argument
    (equal to which key / strictly between which keys) are left to the solver.  Anything that does not match
    syntactically falls back to the generic (slow) formula."""
    n0, nE = len(stored_ranks), len(ents)
    A = aw.get_id()
    kc = [('A' if k_.get_id() == A else rank.get(k_.get_id(), '?')) for k_, _ in ents]

    def val_ok(i, want):
        v_ = ents[i][1]
        return True if (is_set or v_.get_id() == want.get_id()) else (v_ == want)
    okret = [ret != llsym.bv(-1, 32), e == 0] if retchk else []
    T_ = z3.BoolVal(True)
    R0, R1, RM1, EK = ((ret == 0, ret != 0, ret == llsym.bv(-1, 32), e == llsym.bv(KEY_ERROR, 64)) if retchk else (T_, T_, T_, T_))
    if '?' not in kc:
        olds = list(stored_ranks)
        if op == 'delete':
            if kc == olds:                                  # nothing removed: the key must be absent, KeyError
                vs = [val_ok(i, vals[r]) for i, r in enumerate(olds)]
                if all(v_ is True for v_ in vs):
                    return [z3.And(*[aw != keys[r] for r in olds]) if olds else z3.BoolVal(True), RM1, EK]
            for i, r in enumerate(olds):
                if kc == olds[:i] + olds[i + 1:]:
                    rest = olds[:i] + olds[i + 1:]
                    vs = [val_ok(j, vals[r2]) for j, r2 in enumerate(rest)]
                    if all(v_ is True for v_ in vs):
                        return [aw == keys[r], R1] + okret
        else:
            if kc == olds:                                  # no new entry: the key must be present
                # which one?  the entry whose value term changed, else ask the model
                cand = [i for i, r in enumerate(olds) if not is_set and ents[i][1].get_id() != vals[r].get_id()]
                if len(cand) <= 1:
                    if cand:
                        i = cand[0]
                        if op == 'set':
                            return [aw == keys[olds[i]], val_ok(i, vw) if val_ok(i, vw) is not True else z3.BoolVal(True), R0] + okret
                    else:
                        # contents unchanged: present key and (insert-if-absent, a set, or the same value assigned again)
                        same = [z3.And(aw == keys[r], (vals[r] == vw) if (op == 'set' and not is_set) else True) for r in olds]
                        return [z3.Or(*same) if same else z3.BoolVal(False), R0] + okret
            if kc.count('A') == 1 and [c_ for c_ in kc if c_ != 'A'] == olds:
                p_ = kc.index('A')
                vs = [val_ok(j, vals[c_]) for j, c_ in enumerate(kc) if c_ != 'A']
                if all(v_ is True for v_ in vs):
                    out = [R1] + okret
                    if p_ > 0:
                        out.append(ltk(keys[kc[p_ - 1]], aw))
                    if p_ < nE - 1:
                        out.append(ltk(aw, keys[kc[p_ + 1]]))
                    vo = val_ok(p_, vw)
                    if vo is not True:
                        out.append(vo)
                    return out
    # generic formula
    FALLBACKS[0] += 1
    found = {r: keys[r] == aw for r in stored_ranks}
    anyf = z3.Or(*found.values()) if found else z3.BoolVal(False)

    def has(k_, v_):
        return z3.Or(*[z3.And(ek == k_, (ev == v_) if not is_set else True) for ek, ev in ents]) if ents else z3.BoolVal(False)
    olds = lambda skip=None: [has(keys[r], vals[r]) for r in stored_ranks if r != skip]
    okr = z3.And(*okret) if okret else T_
    cases = []
    if op == 'delete':
        for r in stored_ranks:
            cases.append(z3.Implies(found[r], z3.And(okr, R1, z3.BoolVal(nE == n0 - 1), *olds(r))))
        cases.append(z3.Implies(z3.Not(anyf), z3.And(RM1, EK, z3.BoolVal(nE == n0), *olds())))
    else:
        for r in stored_ranks:
            newv = vw if (op == 'set' and not is_set) else vals[r]
            cases.append(z3.Implies(found[r], z3.And(okr, R0, z3.BoolVal(nE == n0), has(keys[r], newv), *olds(r))))
        cases.append(z3.Implies(z3.Not(anyf), z3.And(okr, R1, z3.BoolVal(nE == n0 + 1), has(aw, vw), *olds())))
    return cases


def _run_tree_set(ob, scratch, fail_at=None):
    from engine import shapes as shp
    t0 = time.time()
    P = ob['params']
    fam, tpl, op, L, I = P['family'], _tup(P['tpl']), P['op'], P.get('L', 2), P.get('I', 2)
    spare, is_set, stored = P.get('spare', 0), P.get('is_set', False), P.get('stored', True)
    focus = P.get('focus') or ['contents', 'sound', 'notify', 'pins', 'refs']
    m = shp.n_ranks(tpl)
    res = {'id': ob['id'], 'names': ['n', 'v'] + ['k%d' % i for i in range(m)] + ['w%d' % i for i in range(m)], 'twin_refuted': False,
           'witness': None, 'twin_s': 0}
    kb, ksigned = KEYT[fam[0]]
    vb, vsigned = KEYT[fam[1]]
    aw, vw = z3.BitVec('n', kb), z3.BitVec('v', vb)
    keys = [z3.BitVec('k%d' % i, kb) for i in range(m)]
    vals = [z3.BitVec('w%d' % i, vb) for i in range(m)]
    ltk = (lambda a_, b_: a_ < b_) if ksigned else z3.ULT
    pre = [ltk(keys[i], keys[i + 1]) for i in range(m - 1)]
    try:
        module = build_conv(fam, scratch)
        it, mem, T, L_ = setup(module, fam, L, I, ob.get('timeout', 300), is_set, fail_at=fail_at)
        it.budget = 600000
        vobj = _word_stubs(it, mem, L_, fam, aw, vw)
        root = T.build(mem, tpl, keys, vals, spare=spare, stored=stored)
        pre_nodes = list(T.nodes)
        # the pre-state itself must be sound (a harness defect otherwise)
        w0 = T.walk(mem, L, None)
        if w0['problems']:
            raise llsym.Unsupported('harness defect: unsound pre-state: %s' % w0['problems'][:2])
        args = [llsym.bv(root, 64), llsym.bv(L_['obj'], 64), llsym.bv(0 if op == 'delete' else vobj, 64),
                llsym.bv(1 if op == 'insert' else 0, 32), llsym.bv(1 if is_set else 0, 32)]
        outs = it.run('_BTree_set', args, mem, pre)
    except (llsym.Unsupported, llsym.Budget) as e:
        res.update(verdict='inconclusive', detail='%s: %s' % (type(e).__name__, e), paths=0, solver_queries=0, solver_s=0, wall_s=time.time() - t0)
        return res
    stored_ranks = sorted(set(shp.leaf_keys(tpl)))
    rank = {keys[r].get_id(): r for r in range(m)}
    s = OSolver()
    s.add(*pre)
    q, ts, cex, detail, reached, fired_paths = 0, 0.0, None, None, 0, 0
    for o in outs:
        s.push()
        s.add(*o.cond)
        t1 = time.perf_counter()
        feas = str(s.check())
        q += 1
        if feas != 'sat':
            s.pop()
            ts += time.perf_counter() - t1
            if feas == 'unknown':
                cex, detail = 'unknown', 'solver unknown on a path condition'
                break
            continue
        if o.kind in ('assert', 'memory'):
            cex, detail = s.model(), ('assertion reachable: ' if o.kind == 'assert' else 'memory error: ') + str(o.detail)
            s.pop()
            break
        if o.kind == 'dead':
            s.pop()
            continue
        reached += 1
        fired = fail_at is not None and T.c(o.mem.load(L_['acnt'] + 8, 8)) == 1
        fired_paths += 1 if fired else 0
        try:
            # after a refused allocation a leaf may legitimately hold one key too many (insert done, split refused)
            w = T.walk(o.mem, None if fired else L, None if fired else I, rank)
            chg = T.changed_terms(o.mem, w['nodes'])
        except llsym.MemError as me:
            cex, detail = s.model(), 'the tree references memory it does not own: %s' % me
            s.pop()
            break
        except llsym.Unsupported as e:
            cex, detail = 'unknown', str(e)
            s.pop()
            break
        probs = [p_ for p_ in w['problems'] if (p_.startswith('PIN') and 'pins' in focus) or (p_.startswith('REF') and 'refs' in focus)
                 or (p_.startswith('CHAIN') and 'contents' in focus) or (p_[:3] not in ('PIN', 'REF') and 'sound' in focus)]
        if probs:
            cex, detail = s.model(), 'unsound tree after _BTree_set(%s): %s' % (op, '; '.join(probs[:3]))
            s.pop()
            break
        ents = w['entries']
        nE = len(ents)
        n0 = len(stored_ranks)
        e = o.mem.load(L_['err'], 8)
        ret = o.ret
        if fired:
            # MemoryError reported; contents are the previous ones or the completed change
            unchanged = [k_.get_id() for k_, _ in ents] == [keys[r].get_id() for r in stored_ranks] and \
                (is_set or [v_.get_id() for _, v_ in ents] == [vals[r].get_id() for r in stored_ranks])
            cases = [ret == llsym.bv(-1, 32), e == llsym.bv(MEMORY_ERROR, 64)]
            if not unchanged:
                cases += _cases(s, op, is_set, ents, stored_ranks, keys, vals, aw, vw, ret, e, rank, ltk, retchk=False)
        else:
            cases = _cases(s, op, is_set, ents, stored_ranks, keys, vals, aw, vw, ret, e, rank, ltk)
        # C04: a node whose serialised state differs must have been announced (an oid-less leaf under a one-child
        # root is serialised inside the root: then the root must be announced)
        notif = []
        rootser = T.serial(o.mem, T.root)
        for a, term in chg.items():
            told = (o.mem.load(L_['slot'](a), 8) & 1) != 0
            if T.typ(o.mem, a) == B_TYPE and T.c(o.mem.load(a + T.blay[2][2], 8)) == 0:
                told = (o.mem.load(L_['slot'](T.root), 8) & 1) != 0 if (rootser[1] == 1 and rootser[2] == [a]) else z3.BoolVal(True)
            notif.append(z3.Implies(term, told))
        # nodes that left the tree must be dead or unreferenced by it (walk would have failed otherwise)
        groups = [('ordering / separator ranges', w['conds'] if ('sound' in focus or 'contents' in focus) else []),
                  ('contents / return value / error', cases if 'contents' in focus else []),
                  ('change notification', notif if 'notify' in focus else [])]
        post = z3.And(*[c_ for _, g_ in groups for c_ in g_])
        r_ = str(s.check(z3.Not(post)))
        q += 1
        ts += time.perf_counter() - t1
        if r_ == 'sat':
            mdl = s.model()
            why = []
            for nm, grp in groups:
                if grp and not z3.is_true(mdl.eval(z3.And(*grp), model_completion=True)):
                    why.append(nm)
            cex, detail = mdl, '_BTree_set(%s) post-condition violated: %s' % (op, ', '.join(why))
            s.pop()
            break
        if r_ != 'unsat':
            cex, detail = 'unknown', 'solver unknown on the post-condition'
            s.pop()
            break
        s.pop()
    if cex == 'unknown':
        verdict, cex = 'inconclusive', None
    elif cex is not None:
        verdict = 'counterexample'
        mdl = cex

        def gv(x, bits, sg):
            v_ = mdl.eval(x, model_completion=True).as_long()
            return v_ - (1 << bits) if (sg and v_ >> (bits - 1)) else v_
        cex = {'n': gv(aw, kb, ksigned), 'v': gv(vw, vb, vsigned)}
        for i in range(m):
            cex['k%d' % i] = gv(keys[i], kb, ksigned)
            cex['w%d' % i] = gv(vals[i], vb, vsigned)
    elif reached == 0:
        verdict, detail = 'inconclusive', 'vacuous: no feasible returning path'
    else:
        verdict = 'confirmed'
    res.update(verdict=verdict, detail=detail, cex=cex, paths=len(outs), solver_queries=it.stats['queries'] + q,
               solver_s=round(it.stats['solver_s'] + ts, 3), wall_s=round(time.time() - t0, 2), twin_refuted=reached > 0,
               instr=it.stats['instr'], witness={'returning_paths': reached, 'generic_postconditions': FALLBACKS[0]}, fired_paths=fired_paths)
    return res


def run_tree_set(ob, scratch):
    """one call of _BTree_set; with params['oom'] the call is repeated with the n-th allocation refused, n = 0, 1, ...
    until no path reaches an n-th allocation any more (C17)"""
    if not ob['params'].get('oom'):
        return _run_tree_set(ob, scratch)
    tot = None
    for n in range(0, 24):
        r = _run_tree_set(ob, scratch, fail_at=n)
        if tot is None:
            tot = dict(r)
        else:
            for k_ in ('paths', 'solver_queries', 'solver_s', 'wall_s', 'instr'):
                tot[k_] = round(tot.get(k_, 0) + r.get(k_, 0), 3)
        if r['verdict'] != 'confirmed':
            cx = r.get('cex')
            if isinstance(cx, dict):
                cx = dict(cx, fa=n)
            tot.update(verdict=r['verdict'], cex=cx, detail='with allocation #%d of the call refused: %s' % (n, r.get('detail')))
            tot['names'] = list(r.get('names', [])) + ['fa']
            return tot
        if not r.get('fired_paths'):
            tot['witness'] = dict(r.get('witness') or {}, allocations_refused_in_turn=n)
            tot['twin_refuted'] = n > 0
            if n == 0:
                tot.update(verdict='inconclusive', detail='vacuous: the call never allocates')
            return tot
    tot.update(verdict='inconclusive', detail='more than 24 allocations on a path')
    return tot


def run_tree_range(ob, scratch):
    """BTree_findRangeEnd (one end of a range search: low/high, inclusive/exclusive) of a native-key family on a fake
    multi-level tree: the (leaf, offset) it reports is the position of the smallest key >= (>) the bound, resp. the
    largest key <= (<) it, in chain order; 0 when no key qualifies; nothing is modified, every node is unpinned, the
    reported leaf (and only it) got one more reference."""
    from engine import shapes as shp
    t0 = time.time()
    P = ob['params']
    fam, tpl, low, excl = P['family'], _tup(P['tpl']), P['low'], P['exclude']
    m = shp.n_ranks(tpl)
    res = {'id': ob['id'], 'names': ['n'] + ['k%d' % i for i in range(m)], 'twin_refuted': False, 'witness': None, 'twin_s': 0}
    kb, ksigned = KEYT[fam[0]]
    vb, vsigned = KEYT[fam[1]]
    aw, vw = z3.BitVec('n', kb), z3.BitVec('v', vb)
    keys = [z3.BitVec('k%d' % i, kb) for i in range(m)]
    vals = [z3.BitVec('w%d' % i, vb) for i in range(m)]
    ltk = (lambda a_, b_: a_ < b_) if ksigned else z3.ULT
    lek = (lambda a_, b_: a_ <= b_) if ksigned else z3.ULE
    pre = [ltk(keys[i], keys[i + 1]) for i in range(m - 1)]
    try:
        module = build_conv(fam, scratch)
        it, mem, T, L_ = setup(module, fam, 2, 2, ob.get('timeout', 300), P.get('is_set', False))
        it.budget = 600000
        _word_stubs(it, mem, L_, fam, aw, vw)
        root = T.build(mem, tpl, keys, vals, spare=0, stored=True)
        outb = mem.alloc(8, 'out-bucket')
        outo = mem.alloc(4, 'out-offset')
        mem.store(outb, 8, llsym.bv(0, 64))
        mem.store(outo, 4, llsym.bv(0x55555555, 32))
        # chain-ordered positions and reference counts before the call
        w0 = T.walk(mem, None, None)
        if w0['problems']:
            raise llsym.Unsupported('harness defect: unsound pre-state: %s' % w0['problems'][:2])
        pos = []
        for a_ in w0['nodes']:
            if T.typ(mem, a_) == B_TYPE:
                kind, n_, ks_, vs_, nx_ = T.serial(mem, a_)
                pos += [(a_, i, ks_[i]) for i in range(n_)]
        rc0 = {a_: T.c(mem.load(a_, 8)) for a_ in w0['nodes']}
        ser0 = {a_: T.serial(mem, a_) for a_ in w0['nodes']}
        outs = it.run('BTree_findRangeEnd', [llsym.bv(root, 64), llsym.bv(L_['obj'], 64), llsym.bv(low, 32), llsym.bv(excl, 32),
                                             llsym.bv(outb, 64), llsym.bv(outo, 64)], mem, pre)
    except (llsym.Unsupported, llsym.Budget) as e:
        res.update(verdict='inconclusive', detail='%s: %s' % (type(e).__name__, e), paths=0, solver_queries=0, solver_s=0, wall_s=time.time() - t0)
        return res
    s = OSolver()
    s.add(*pre)
    q, ts, cex, detail, reached = 0, 0.0, None, None, 0
    # "qualifies": key >= / > bound (low end), key <= / < bound (high end)
    if low:
        qual = (lambda k_: ltk(aw, k_)) if excl else (lambda k_: lek(aw, k_))
    else:
        qual = (lambda k_: ltk(k_, aw)) if excl else (lambda k_: lek(k_, aw))
    for o in outs:
        s.push()
        s.add(*o.cond)
        t1 = time.perf_counter()
        feas = str(s.check())
        q += 1
        if feas != 'sat':
            s.pop()
            ts += time.perf_counter() - t1
            if feas == 'unknown':
                cex, detail = 'unknown', 'solver unknown on a path condition'
                break
            continue
        if o.kind in ('assert', 'memory'):
            cex, detail = s.model(), ('assertion reachable: ' if o.kind == 'assert' else 'memory error: ') + str(o.detail)
            s.pop()
            break
        if o.kind == 'dead':
            s.pop()
            continue
        reached += 1
        try:
            ret = T.c(o.ret)
            ret = ret - (1 << 32) if ret >> 31 else ret
            problems = []
            for a_ in w0['nodes']:
                st = T.c(o.mem.load(a_ + T.blay[2][6], 4)) & 255
                if st != 0:
                    problems.append('node %#x left in persistence state %d' % (a_, st))
                if T.serial(o.mem, a_)[1] != ser0[a_][1] or T.serial(o.mem, a_)[4] != ser0[a_][4]:
                    problems.append('node %#x modified by a search' % a_)
            rb = T.c(o.mem.load(outb, 8))
            conds = []
            if ret == 1:
                off = T.c(o.mem.load(outo, 4))
                j = [i for i, (a_, i_, _) in enumerate(pos) if a_ == rb and i_ == off]
                if not j:
                    problems.append('reported position (%#x, %d) is not an entry of the tree' % (rb, off))
                else:
                    j = j[0]
                    conds.append(qual(pos[j][2]))
                    nb = j - 1 if low else j + 1
                    if 0 <= nb < len(pos):
                        conds.append(z3.Not(qual(pos[nb][2])))
            elif ret == 0:
                if pos:
                    conds.append(z3.Not(qual(pos[-1][2] if low else pos[0][2])))
            else:
                problems.append('BTree_findRangeEnd returned %d for a representable bound' % ret)
            for a_ in w0['nodes']:
                want = rc0[a_] + (1 if (ret == 1 and a_ == rb) else 0)
                if T.c(o.mem.load(a_, 8)) != want:
                    problems.append('reference count of node %#x is %d, expected %d' % (a_, T.c(o.mem.load(a_, 8)), want))
            if (T.c(o.mem.load(L_['slot'](root), 8)) & 1) or any(T.c(o.mem.load(L_['slot'](a_), 8)) & 1 for a_ in w0['nodes']):
                problems.append('a search announced a change')
        except llsym.MemError as me:
            cex, detail = s.model(), 'memory error while reading the result: %s' % me
            s.pop()
            break
        except llsym.Unsupported as e:
            cex, detail = 'unknown', str(e)
            s.pop()
            break
        if problems:
            cex, detail = s.model(), 'BTree_findRangeEnd: ' + '; '.join(problems[:3])
            s.pop()
            break
        r_ = str(s.check(z3.Not(z3.And(*conds)))) if conds else 'unsat'
        q += 1
        ts += time.perf_counter() - t1
        if r_ == 'sat':
            cex, detail = s.model(), 'BTree_findRangeEnd(low=%d, exclude_equal=%d) reports a position that is not the range end (ret %d)' % (low, excl, ret)
            s.pop()
            break
        if r_ != 'unsat':
            cex, detail = 'unknown', 'solver unknown on the post-condition'
            s.pop()
            break
        s.pop()
    if cex == 'unknown':
        verdict, cex = 'inconclusive', None
    elif cex is not None:
        verdict = 'counterexample'
        mdl = cex

        def gv(x):
            v_ = mdl.eval(x, model_completion=True).as_long()
            return v_ - (1 << kb) if (ksigned and v_ >> (kb - 1)) else v_
        cex = {'n': gv(aw)}
        for i in range(m):
            cex['k%d' % i] = gv(keys[i])
    elif reached == 0:
        verdict, detail = 'inconclusive', 'vacuous: no feasible returning path'
    else:
        verdict = 'confirmed'
    res.update(verdict=verdict, detail=detail, cex=cex, paths=len(outs), solver_queries=it.stats['queries'] + q,
               solver_s=round(it.stats['solver_s'] + ts, 3), wall_s=round(time.time() - t0, 2), twin_refuted=reached > 0,
               instr=it.stats['instr'], witness={'returning_paths': reached})
    return res
