"""Obligation generation (runs in its own process: the shape catalogue executes
the real code).  argv: <property> <tier> <seed> <scratch>; prints JSON."""
import json
import os
import sys

scratch = sys.argv[4]
sys.path.insert(0, scratch)
sys.path.insert(0, os.path.dirname(os.path.dirname(os.path.abspath(__file__))))
out = os.fdopen(os.dup(1), 'w')
os.dup2(2, 1)

from harness import props  # noqa: E402

spec = props.PROPS[sys.argv[1]]
res = spec['gen'](sys.argv[2], int(sys.argv[3]))
ids = set()
for o in res['obligations']:
    assert o['id'] not in ids, o['id']
    ids.add(o['id'])
out.write(json.dumps(res))
out.flush()
