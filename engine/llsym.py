"""Engine E2: a small symbolic interpreter for LLVM IR (clang-14 -O1 text) over
z3 bit-vectors, written for the native kernels of BTrees (sorters.c).

* values: z3 bit-vectors (constants are folded); pointers must be concrete;
* memory: byte-addressed regions created by the harness (arrays), `alloca` and
  `malloc`; every load/store is checked against region bounds and liveness ->
  an out-of-bounds or use-after-free access on ANY feasible path is reported;
* control flow: a branch on a symbolic condition asks z3 which sides are
  feasible under the path condition and forks (depth-first); loops unroll by
  execution under an instruction budget (budget hit = inconclusive, never a
  silent truncation);
* calls: functions defined in the module are interpreted (frame stack);
  `__assert_fail` is a finding; llvm.lifetime / memcpy / memmove, malloc, free
  are modelled;
* unsupported constructs raise Unsupported (obligation inconclusive).
"""
import re
import time

import z3


class Unsupported(Exception):
    pass


class Budget(Exception):
    pass


def bv(v, w):
    return z3.BitVecVal(v, w)


def width(t):
    t = t.strip()
    if t.endswith('*'):
        return 64
    m = re.fullmatch(r'i(\d+)', t)
    if m:
        return int(m.group(1))
    raise Unsupported('type ' + t)


class Module:
    def __init__(self, path):
        self.src = open(path).read()
        self.funcs = {}
        self.structs = {}
        for m in re.finditer(r'^(%[\w.]+) = type (<?\{.*\}>?)$', self.src, re.M):
            body = m.group(2)
            inner = body[2:-2] if body.startswith('<{') else body[1:-1]
            self.structs[m.group(1)] = [x.strip() for x in self._split(inner) if x.strip()]
        for m in re.finditer(r'^(%[\w.]+) = type opaque', self.src, re.M):
            self.structs[m.group(1)] = []
        for m in re.finditer(r'^define [^\n]*?@([\w.]+)\((.*?)\)[^\n]*\{\n(.*?)^\}', self.src, re.S | re.M):
            self.funcs[m.group(1)] = self._parse(m.group(2), m.group(3))

    def layout(self, t):
        """(size, alignment, field offsets or None) with natural alignment (x86-64 data layout)"""
        t = t.strip()
        if t.endswith('*'):
            return 8, 8, None
        m = re.fullmatch(r'i(\d+)', t)
        if m:
            n = max(1, (int(m.group(1)) + 7) // 8)
            return n, min(n, 8), None
        if t == 'float':
            return 4, 4, None
        if t == 'double':
            return 8, 8, None
        m = re.fullmatch(r'\[(\d+) x (.+)\]', t)
        if m:
            sz, al, _ = self.layout(m.group(2))
            return int(m.group(1)) * sz, al, None
        if t in self.structs:
            fields = self.structs[t]
        elif t.startswith('{') and t.endswith('}'):
            fields = [x.strip() for x in self._split(t[1:-1]) if x.strip()]
        elif t.startswith('<{') and t.endswith('}>'):
            fields = [x.strip() for x in self._split(t[2:-2]) if x.strip()]
            off, offs = 0, []
            for f in fields:
                offs.append(off)
                off += self.layout(f)[0]
            return off, 1, offs
        else:
            raise Unsupported('layout of ' + t)
        off, al, offs = 0, 1, []
        for f in fields:
            sz, a, _ = self.layout(f)
            off = (off + a - 1) // a * a
            offs.append(off)
            off += sz
            al = max(al, a)
        return (off + al - 1) // al * al, al, offs

    def sizeof(self, t):
        return self.layout(t)[0]

    def _parse(self, params, body):
        names = []
        for p in self._split(params):
            p = p.strip()
            if p:
                names.append(p.split()[-1])
        blocks, order = {}, []
        cur = '%' + str(len(names))
        blocks[cur] = []
        order.append(cur)
        pending = None
        for line in body.split('\n'):
            if pending is not None:
                pending += ' ' + line.strip()
                if line.strip().startswith(']'):
                    blocks[cur].append(pending)
                    pending = None
                continue
            lm = re.match(r'^([\w.]+):', line)
            if lm:
                cur = '%' + lm.group(1)
                blocks[cur] = []
                order.append(cur)
                continue
            line = line.strip()
            if not line or line.startswith(';'):
                continue
            line = re.sub(r',? ![\w.]+ !\d+', '', line)
            line = re.sub(r'\s+;.*$', '', line)
            if line.startswith('switch') and not line.endswith(']'):
                pending = line
                continue
            blocks[cur].append(line)
        return names, blocks, order[0]

    @staticmethod
    def _split(s):
        out, depth, cur = [], 0, ''
        for ch in s:
            if ch in '([{<':
                depth += 1
            elif ch in ')]}>':
                depth -= 1
            if ch == ',' and depth == 0:
                out.append(cur)
                cur = ''
            else:
                cur += ch
        if cur.strip():
            out.append(cur)
        return out


class Memory:
    def __init__(self):
        self.regions = {}       # base -> [size, alive, cells {offset: (value, nbytes)}, kind]
        self.next = 0x100000

    def copy(self):
        m = Memory()
        m.next = self.next
        m.regions = {b: [r[0], r[1], dict(r[2]), r[3]] for b, r in self.regions.items()}
        return m

    def alloc(self, size, kind='heap'):
        base = self.next
        self.next += ((size + 15) // 16 + 2) * 16
        self.regions[base] = [size, True, {}, kind]
        return base

    def find(self, addr, n, what):
        for b, r in self.regions.items():
            if b <= addr < b + max(r[0], 1) or (addr == b and r[0] == 0):
                if not r[1]:
                    raise MemError('%s of freed memory at %#x' % (what, addr))
                if addr + n > b + r[0]:
                    raise MemError('%s past the end of a %d-byte block (%#x + %d)' % (what, r[0], addr - b, n))
                return b, r
        raise MemError('%s outside every live block (%#x)' % (what, addr))

    @staticmethod
    def _cover(r, off):
        """the cell of region r that starts before `off` and covers it, or None"""
        for o, c in r[2].items():
            if o < off < o + c[1]:
                return o, c
        return None

    def load(self, addr, n):
        b, r = self.find(addr, n, 'load')
        off = addr - b
        c = r[2].get(off)
        if c is None:
            cv = self._cover(r, off)
            if cv is None:
                raise MemError('load of uninitialised memory at %#x' % addr)
            o, c = cv
            if off + n > o + c[1]:
                raise Unsupported('load straddles cells')
            return z3.simplify(z3.Extract(8 * (off - o + n) - 1, 8 * (off - o), c[0]))      # little-endian sub-word
        if c[1] == n:
            return c[0]
        if c[1] > n:
            return z3.simplify(z3.Extract(8 * n - 1, 0, c[0]))
        parts, o = [], off
        while o < off + n:
            c = r[2].get(o)
            if c is None or o + c[1] > off + n:
                raise Unsupported('load of %d bytes over cells that do not tile it' % n)
            parts.append(c[0])
            o += c[1]
        return z3.simplify(z3.Concat(*reversed(parts)))

    def store(self, addr, n, v):
        b, r = self.find(addr, n, 'store')
        off = addr - b
        c = r[2].get(off)
        cv = self._cover(r, off) if c is None else None
        if cv is not None or (c is not None and c[1] > n):
            o, c = cv if cv is not None else (off, c)
            if off + n > o + c[1]:
                raise Unsupported('store straddles cells')
            lo, hi, w = 8 * (off - o), 8 * (off - o + n), 8 * c[1]
            parts = ([z3.Extract(w - 1, hi, c[0])] if hi < w else []) + [v] + ([z3.Extract(lo - 1, 0, c[0])] if lo > 0 else [])
            r[2][o] = (z3.simplify(z3.Concat(*parts)) if len(parts) > 1 else v, c[1])
            return
        for o in [o for o in r[2] if off < o < off + n]:
            del r[2][o]
        r[2][off] = (v, n)

    def move(self, dst, src, n):
        if n == 0:
            return
        sb, sr = self.find(src, n, 'memcpy/memmove source')
        self.find(dst, n, 'memcpy/memmove destination')
        cells = [(o, c) for o, c in sr[2].items() if src - sb <= o < src - sb + n]
        for o, c in cells:
            if o + c[1] > src - sb + n:
                raise Unsupported('memmove splits a cell')
        for o, c in cells:
            self.store(dst + (o - (src - sb)), c[1], c[0])

    def free(self, addr):
        if addr == 0:
            return
        if addr not in self.regions or not self.regions[addr][1]:
            raise MemError('free of a pointer that is not a live block (%#x)' % addr)
        self.regions[addr][1] = False


class MemError(Exception):
    pass


class Frame:
    __slots__ = ('fn', 'env', 'block', 'prev', 'pc', 'dest')

    def __init__(self, fn, env, block, dest):
        self.fn, self.env, self.block, self.prev, self.pc, self.dest = fn, env, block, None, 0, dest

    def copy(self):
        f = Frame(self.fn, dict(self.env), self.block, self.dest)
        f.prev, f.pc = self.prev, self.pc
        return f


class Outcome:
    def __init__(self, kind, cond, ret=None, mem=None, detail=None):
        self.kind, self.cond, self.ret, self.mem, self.detail = kind, cond, ret, mem, detail


class Interp:
    def __init__(self, module, budget=400000, timeout=None):
        self.m = module
        self.solver = z3.Solver()
        self.stats = {'paths': 0, 'queries': 0, 'instr': 0, 'solver_s': 0.0}
        self.budget = budget
        self.deadline = time.time() + timeout if timeout else None
        self.globals = {}      # name -> address of the global's cell (see bind_global)
        self.externs = {}      # name -> callable(interp, args, mem, cond) -> value or None
        self.fptrs = {}        # concrete function-pointer value -> callable (indirect calls through a function table)

    def feasible(self, cond, extra):
        t0 = time.perf_counter()
        self.solver.push()
        self.solver.add(*cond)
        self.solver.add(extra)
        r = self.solver.check()
        self.solver.pop()
        self.stats['queries'] += 1
        self.stats['solver_s'] += time.perf_counter() - t0
        if str(r) == 'unknown':
            raise Unsupported('solver returned unknown on a branch condition')
        return str(r) == 'sat'

    @staticmethod
    def conc(x):
        x = z3.simplify(x)
        if not z3.is_bv_value(x):
            raise Unsupported('symbolic pointer or size')
        return x.as_long()

    def val(self, env, tok, t):
        tok = tok.strip()
        if tok.startswith('%'):
            return env[tok]
        if tok in ('null', 'zeroinitializer'):
            return bv(0, 64)
        if tok == 'true':
            return bv(1, 1)
        if tok == 'false':
            return bv(0, 1)
        if tok in ('undef', 'poison'):
            return bv(0, width(t))
        if re.fullmatch(r'-?\d+', tok):
            return bv(int(tok), width(t))
        if tok.startswith('@') and tok[1:] in self.globals:
            return bv(self.globals[tok[1:]], 64)
        if tok.startswith('@') or tok.startswith('getelementptr') or tok.startswith('bitcast'):
            return bv(0xdead0000, 64)      # address of a constant (only passed to __assert_fail / message arguments)
        raise Unsupported('operand ' + tok)

    def run(self, fname, args, mem, pre=()):
        """-> list of Outcome ('ret' | 'assert' | 'memory')"""
        names, blocks, entry = self.m.funcs[fname]
        f0 = Frame(fname, dict(zip(names, args)), entry, None)
        work = [([f0], list(pre), mem)]
        out = []
        while work:
            frames, cond, mem = work.pop()
            try:
                res = self.path(frames, cond, mem, work)
            except MemError as e:
                res = Outcome('memory', cond, detail=str(e))
            self.stats['paths'] += 1
            out.append(res)
        return out

    def path(self, frames, cond, mem, work):
        while True:
            fr = frames[-1]
            names, blocks, entry = self.m.funcs[fr.fn]
            code = blocks[fr.block]
            while fr.pc < len(code):
                ins = code[fr.pc]
                fr.pc += 1
                self.stats['instr'] += 1
                if self.stats['instr'] > self.budget:
                    raise Budget('instruction budget exhausted')
                if self.deadline and self.stats['instr'] % 2000 == 0 and time.time() > self.deadline:
                    raise Budget('time budget exhausted')
                r = self.step(ins, fr, frames, cond, mem, work)
                if r is None:
                    continue
                if r[0] == 'jump':
                    fr.prev, fr.block, fr.pc = fr.block, r[1], 0
                    self.phis(fr, blocks[fr.block])
                    break
                if r[0] == 'call':
                    break
                if r[0] == 'ret':
                    frames.pop()
                    if not frames:
                        return Outcome('ret', cond, r[1], mem)
                    if frames[-1].dest is not None and r[1] is not None:
                        pass
                    caller = frames[-1]
                    if r[2] is not None:
                        caller.env[r[2]] = r[1]
                    break
                if r[0] == 'assert':
                    return Outcome('assert', cond, detail=r[1])
                if r[0] == 'dead':
                    return Outcome('dead', cond)
            else:
                raise Unsupported('fell off the end of block %s' % fr.block)

    def phis(self, fr, code):
        """the phi nodes at the head of a block are ONE parallel assignment: all of them read the
        values the predecessor left, none sees another phi's new value"""
        new = []
        while fr.pc < len(code):
            m = re.match(r'(%[\w.]+) = phi (\S+) (.*)', code[fr.pc])
            if not m:
                break
            for v, b in re.findall(r'\[ ([^,]+), (%[\w.]+) \]', m.group(3)):
                if b == fr.prev:
                    new.append((m.group(1), self.val(fr.env, v, m.group(2))))
                    break
            else:
                raise Unsupported('phi without incoming edge from %s' % fr.prev)
            fr.pc += 1
            self.stats['instr'] += 1
        for k, v in new:
            fr.env[k] = v

    def step(self, ins, fr, frames, cond, mem, work):
        env = fr.env
        m = re.match(r'(%[\w.]+) = phi (\S+) (.*)', ins)
        if m:
            for v, b in re.findall(r'\[ ([^,]+), (%[\w.]+) \]', m.group(3)):
                if b == fr.prev:
                    env[m.group(1)] = self.val(env, v, m.group(2))
                    return None
            raise Unsupported('phi without incoming edge from %s' % fr.prev)
        m = re.match(r'(%[\w.]+) = icmp (\w+) (\S+) ([^,]+), (.+)', ins)
        if m:
            a, b = self.val(env, m.group(4), m.group(3)), self.val(env, m.group(5), m.group(3))
            p = m.group(2)
            c = {'eq': a == b, 'ne': a != b, 'ugt': z3.UGT(a, b), 'ult': z3.ULT(a, b), 'uge': z3.UGE(a, b), 'ule': z3.ULE(a, b),
                 'sgt': a > b, 'slt': a < b, 'sge': a >= b, 'sle': a <= b}[p]
            env[m.group(1)] = z3.simplify(z3.If(c, bv(1, 1), bv(0, 1)))
            return None
        m = re.match(r'(%[\w.]+) = (add|sub|mul|shl|ashr|lshr|and|or|xor|udiv|sdiv)(?: nuw| nsw| exact)* (\S+) ([^,]+), (.+)', ins)
        if m:
            a, b = self.val(env, m.group(4), m.group(3)), self.val(env, m.group(5), m.group(3))
            op = m.group(2)
            r = {'add': lambda: a + b, 'sub': lambda: a - b, 'mul': lambda: a * b, 'shl': lambda: a << b, 'ashr': lambda: a >> b,
                 'lshr': lambda: z3.LShR(a, b), 'and': lambda: a & b, 'or': lambda: a | b, 'xor': lambda: a ^ b,
                 'udiv': lambda: z3.UDiv(a, b), 'sdiv': lambda: a / b}[op]()
            env[m.group(1)] = z3.simplify(r)
            return None
        m = re.match(r'(%[\w.]+) = select i1 ([^,]+), (\S+) ([^,]+), \S+ (.+)', ins)
        if m:
            c = self.val(env, m.group(2), 'i1')
            a, b = self.val(env, m.group(4), m.group(3)), self.val(env, m.group(5), m.group(3))
            cc = z3.simplify(c == 1)
            if not z3.is_true(cc) and not z3.is_false(cc) and z3.is_bv_value(z3.simplify(a)) and z3.is_bv_value(z3.simplify(b)) \
                    and m.group(3) != 'i1':
                # both arms are constants (typically indices / offsets that end up in an address): fork like a branch
                # instead of building an If-term, so that pointers stay concrete
                ft, ff = self.feasible(cond, cc), self.feasible(cond, z3.Not(cc))
                if ft and ff:
                    fr2 = [f.copy() for f in frames]
                    fr2[-1].env[m.group(1)] = b
                    work.append((fr2, cond + [z3.Not(cc)], mem.copy()))
                    cond.append(cc)
                    env[m.group(1)] = a
                elif ft:
                    env[m.group(1)] = a
                elif ff:
                    env[m.group(1)] = b
                else:
                    return ('dead',)
                return None
            env[m.group(1)] = z3.simplify(z3.If(cc, a, b))
            return None
        m = re.match(r'(%[\w.]+) = (zext|sext|trunc) (\S+) (\S+) to (\S+)', ins)
        if m:
            a = self.val(env, m.group(4), m.group(3))
            w0, w1 = width(m.group(3)), width(m.group(5))
            r = z3.ZeroExt(w1 - w0, a) if m.group(2) == 'zext' else z3.SignExt(w1 - w0, a) if m.group(2) == 'sext' else z3.Extract(w1 - 1, 0, a)
            env[m.group(1)] = z3.simplify(r)
            return None
        m = re.match(r'(%[\w.]+) = (bitcast|ptrtoint|inttoptr) (.+?) (%[\w.]+|null) to', ins)
        if m:
            env[m.group(1)] = self.val(env, m.group(4), 'i64')
            return None
        m = re.match(r'(%[\w.]+) = getelementptr (?:inbounds )?(.+?), (.+?)\* (%[\w.]+)((?:, i\d+ [^,]+)+)$', ins)
        if m:
            base = env[m.group(4)]
            ty = m.group(2).strip()
            idx = re.findall(r', (i\d+) ([^,]+)', m.group(5))
            addr = base
            cur = ty
            for n, (it, iv) in enumerate(idx):
                v = self.val(env, iv, it)
                if v.size() < 64:
                    v = z3.SignExt(64 - v.size(), v)
                if n == 0:
                    addr = addr + v * self.m.sizeof(cur)
                else:
                    am = re.fullmatch(r'\[(\d+) x (.+)\]', cur)
                    if am:
                        cur = am.group(2)
                        addr = addr + v * self.m.sizeof(cur)
                    elif cur in self.m.structs or cur.startswith('{'):
                        k = self.conc(v)
                        fields = self.m.structs[cur] if cur in self.m.structs else [x.strip() for x in Module._split(cur[1:-1])]
                        addr = addr + self.m.layout(cur)[2][k]
                        cur = fields[k]
                    else:
                        raise Unsupported('gep into ' + cur)
            env[m.group(1)] = z3.simplify(addr)
            return None
        m = re.match(r'(%[\w.]+) = load (?:volatile )?(.*)$', ins)
        if m:
            parts = Module._split(m.group(2))
            ty = parts[0].strip()
            ptr = parts[1].strip().split()[-1]
            env[m.group(1)] = mem.load(self.conc(self.val(env, ptr, 'i64')), self.m.sizeof(ty))
            return None
        m = re.match(r'store (?:volatile )?(.*)$', ins)
        if m:
            parts = Module._split(m.group(1))
            tv = parts[0].strip()
            ty, _, v = tv.rpartition(' ')
            ptr = parts[1].strip().split()[-1]
            mem.store(self.conc(self.val(env, ptr, 'i64')), self.m.sizeof(ty), self.val(env, v, ty if not ty.endswith('*') else 'i64'))
            return None
        m = re.match(r'(%[\w.]+) = alloca (.+?), align', ins)
        if m:
            env[m.group(1)] = bv(mem.alloc(self.m.sizeof(m.group(2)), 'stack'), 64)
            return None
        m = re.match(r'br i1 (%[\w.]+|true|false), label (%[\w.]+), label (%[\w.]+)', ins)
        if m:
            c = z3.simplify(self.val(env, m.group(1), 'i1') == 1)
            if z3.is_true(c):
                return ('jump', m.group(2))
            if z3.is_false(c):
                return ('jump', m.group(3))
            ft, ff = self.feasible(cond, c), self.feasible(cond, z3.Not(c))
            if ft and ff:
                fr2 = [f.copy() for f in frames]
                fr2[-1].prev, fr2[-1].block, fr2[-1].pc = fr.block, m.group(3), 0
                self.phis(fr2[-1], self.m.funcs[fr.fn][1][m.group(3)])
                work.append((fr2, cond + [z3.Not(c)], mem.copy()))
                cond.append(c)
                return ('jump', m.group(2))
            if ft:
                return ('jump', m.group(2))
            if ff:
                return ('jump', m.group(3))
            return ('dead',)
        m = re.match(r'br label (%[\w.]+)', ins)
        if m:
            return ('jump', m.group(1))
        m = re.match(r'switch (\S+) ([^,]+), label (%[\w.]+) \[(.*)\]', ins)
        if m:
            v = self.val(env, m.group(2), m.group(1))
            cases = re.findall(r'(\S+) (-?\d+), label (%[\w.]+)', m.group(4))
            targets = [(z3.simplify(v == bv(int(c), v.size())), l) for _, c, l in cases]
            dflt = z3.simplify(z3.And(*[z3.Not(c) for c, _ in targets])) if targets else z3.BoolVal(True)
            targets.append((dflt, m.group(3)))
            live = []
            for c, l in targets:
                if z3.is_true(c):
                    live = [(c, l)]
                    break
                if z3.is_false(c):
                    continue
                if self.feasible(cond, c):
                    live.append((c, l))
            if not live:
                return ('dead',)
            for c, l in live[1:]:
                fr2 = [f.copy() for f in frames]
                fr2[-1].prev, fr2[-1].block, fr2[-1].pc = fr.block, l, 0
                self.phis(fr2[-1], self.m.funcs[fr.fn][1][l])
                work.append((fr2, cond + [c], mem.copy()))
            if not z3.is_true(live[0][0]):
                cond.append(live[0][0])
            return ('jump', live[0][1])
        m = re.match(r'ret (\S+)(?: (.+))?', ins)
        if m:
            rv = None if m.group(1) == 'void' else self.val(env, m.group(2), m.group(1))
            return ('ret', rv, fr.dest)
        if ins == 'unreachable':
            return ('dead',)
        m = re.match(r'(?:(%[\w.]+) = )?(?:tail |notail |musttail )?call (?:fastcc |noalias |nonnull |noundef |signext |zeroext )*(\S+) (%[\w.]+)\((.*)\)', ins)
        if m:
            fp = self.conc(env[m.group(3)])
            if fp not in self.fptrs:
                raise Unsupported('indirect call to %#x' % fp)
            args = []
            for a in Module._split(m.group(4)):
                a = re.sub(r'\b(noundef|nonnull|noalias|nocapture|readonly|writeonly|signext|zeroext|align \d+|dereferenceable\(\d+\))\b', '', a).strip()
                t, _, v = a.rpartition(' ')
                args.append(self.val(env, v, t.strip() or 'i64'))
            r = self.fptrs[fp](self, args, mem, cond)
            if m.group(1) is not None:
                env[m.group(1)] = r
            return None
        m = re.match(r'(?:(%[\w.]+) = )?(?:tail |notail |musttail )?call (?:fastcc |noalias |nonnull |noundef |signext |zeroext )*(.+?) @([\w.$]+)\((.*)\)', ins)
        if m:
            dest, name, argstr = m.group(1), m.group(3), m.group(4)
            if name == '__assert_fail':
                return ('assert', ins[:160])
            if name.startswith('llvm.lifetime') or name.startswith('llvm.assume') or name.startswith('llvm.dbg'):
                return None
            args = []
            for a in Module._split(argstr):
                a = re.sub(r'\b(noundef|nonnull|noalias|nocapture|readonly|writeonly|signext|zeroext|align \d+|dereferenceable\(\d+\))\b', '', a).strip()
                if 'getelementptr' in a or 'bitcast (' in a or 'inttoptr (' in a:
                    args.append(bv(0xdead0000, 64))     # constant expression (string literal address)
                    continue
                t, _, v = a.rpartition(' ')
                args.append(self.val(env, v, t.strip() or 'i64'))
            if name.startswith('llvm.memcpy') or name.startswith('llvm.memmove'):
                mem.move(self.conc(args[0]), self.conc(args[1]), self.conc(args[2]))
                return None
            if name in ('malloc', 'free') and name in self.externs:
                r = self.externs[name](self, args, mem, cond)
                if dest is not None:
                    env[dest] = r
                return None
            if name == 'malloc':
                n = self.conc(args[0])
                env[dest] = bv(mem.alloc(n, 'heap'), 64)
                return None
            if name == 'free':
                mem.free(self.conc(args[0]))
                return None
            if name in self.externs:
                r = self.externs[name](self, args, mem, cond)
                if dest is not None:
                    env[dest] = r
                return None
            if name in self.m.funcs:
                names, blocks, entry = self.m.funcs[name]
                frames.append(Frame(name, dict(zip(names, args)), entry, dest))
                return ('call',)
            raise Unsupported('call to ' + name)
        raise Unsupported(ins[:120])
