"""Shape catalogue of reachable tree structures and symbolic re-keying.

A *template* is the nested structure of a tree with every key replaced by its
rank among all distinct keys and (possibly stale) separators of the tree:

    ('E',)                               empty tree
    ('T1', (r0, r1, ...))                root holding one embedded leaf
    ('T', (child, sep, child, ...))      interior node; child = ('T', ...) | ('B', (ranks...))

The catalogue is computed by breadth-first search over insert/delete histories
on the REAL class (C or Python) built from the working tree, deduplicating on
the absolute state, until saturation (or a depth cap, reported).
"""
import itertools


def classes(family, impl):
    import importlib
    mod = importlib.import_module('BTrees.%sBTree' % family)
    sfx = 'Py' if impl == 'py' else ''
    d = {
        'BTree': getattr(mod, family + 'BTree' + sfx),
        'Bucket': getattr(mod, family + 'Bucket' + sfx),
        'TreeSet': getattr(mod, family + 'TreeSet' + sfx),
        'Set': getattr(mod, family + 'Set' + sfx),
        'module': mod, 'sfx': sfx,
    }
    if impl == 'c':
        assert d['BTree'] is not getattr(mod, family + 'BTreePy'), \
            'C extension for %s not built' % family
    return d


def set_sizes(cl, L, I):
    for n in ('BTree', 'TreeSet'):
        cl[n].max_leaf_size = L
        cl[n].max_internal_size = I


# ---------------------------------------------------------------------------
# reading the structure of a real tree (public attributes only)

_FAKE = b'\xfevrf'


def tag(t):
    """Give every leaf on the chain that has no oid a fake one, so that
    __getstate__ of a node with a single leaf child returns the child object
    instead of embedding its state.  Returns the leaves to untag."""
    out = []
    try:
        b = t._firstbucket
    except AttributeError:
        return out
    n = 0
    while b is not None and n < 10000:
        if b._p_oid is None and b._p_jar is None:
            b._p_oid = _FAKE + n.to_bytes(3, 'big')
            out.append(b)
        b = b._next
        n += 1
    return out


def untag(tagged):
    for b in tagged:
        try:
            del b._p_oid        # back to 'never stored' (assigning None is not the same for the C base class)
        except Exception:       # noqa
            b._p_oid = None


def raw(t, is_set, leaf_types):
    """nested raw structure with actual keys: same constructors as templates."""
    tg = tag(t)
    try:
        r = _raw(t, is_set, leaf_types)
    finally:
        untag(tg)
    if r[0] == 'T' and len(r[1]) == 1 and r[1][0][0] == 'B':
        r = ('T1', r[1][0][1])
    return r


def _raw(t, is_set, leaf_types):
    st = t.__getstate__()
    if isinstance(t, leaf_types):
        ks = st[0] if is_set else st[0][::2]
        return ('B', tuple(ks))
    if st is None:
        return ('E',)
    if len(st) == 1:
        inner = st[0][0][0]
        return ('T1', tuple(inner if is_set else inner[::2]))
    items = st[0]
    out = []
    for i, x in enumerate(items):
        if i % 2:
            out.append(x)
        else:
            out.append(_raw(x, is_set, leaf_types))
    return ('T', tuple(out))


def all_keys(r, acc=None):
    acc = [] if acc is None else acc
    if r[0] in ('B', 'T1'):
        acc.extend(r[1])
    elif r[0] == 'T':
        for i, x in enumerate(r[1]):
            if i % 2:
                acc.append(x)
            else:
                all_keys(x, acc)
    return acc


def leaf_keys(r, acc=None):
    acc = [] if acc is None else acc
    if r[0] in ('B', 'T1'):
        acc.extend(r[1])
    elif r[0] == 'T':
        for x in r[1][::2]:
            leaf_keys(x, acc)
    return acc


def rerank(r, mapping):
    if r[0] == 'E':
        return r
    if r[0] in ('B', 'T1'):
        return (r[0], tuple(mapping[k] for k in r[1]))
    return ('T', tuple(mapping[x] if i % 2 else rerank(x, mapping) for i, x in enumerate(r[1])))


def template_of(t, is_set, leaf_types):
    r = raw(t, is_set, leaf_types)
    ks = sorted(set(all_keys(r)))
    return rerank(r, {k: i for i, k in enumerate(ks)}), ks


def n_ranks(tpl):
    ks = all_keys(tpl)
    return (max(ks) + 1) if ks else 0


def leaves(tpl):
    if tpl[0] in ('B', 'T1'):
        return [tpl[1]]
    if tpl[0] == 'E':
        return []
    out = []
    for x in tpl[1][::2]:
        out.extend(leaves(x))
    return out


def depth(tpl):
    if tpl[0] == 'E':
        return 0
    if tpl[0] in ('B', 'T1'):
        return 1
    return 1 + max(depth(x) for x in tpl[1][::2])


def features(tpl, L, I):
    f = set()
    lv = leaves(tpl)
    lk = set(leaf_keys(tpl))
    f.add('depth%d' % depth(tpl))
    if tpl[0] == 'E':
        f.add('empty')
        return f
    if tpl[0] == 'T1':
        f.add('embedded')
        if len(tpl[1]) == L:
            f.add('embedded_full')
        return f
    if len(tpl[1]) == 1:
        f.add('single_child_root')
    if any(k not in lk for k in all_keys(tpl)):
        f.add('stale_separator')
    if len(lv[0]) == 1:
        f.add('first_leaf_1')
    if len(lv[-1]) == 1:
        f.add('last_leaf_1')
    if any(len(x) == L for x in lv):
        f.add('full_leaf')
    # ragged neighbours: walking across a leaf boundary where the two leaves differ in length
    for x, y in zip(lv, lv[1:]):
        if len(x) > len(y):
            f.add('leaf_pair_shrinks')
        elif len(x) < len(y):
            f.add('leaf_pair_grows')
    if len(lv) >= 3 and len(lv[1]) == 1 and len(lv[0]) > 1 and len(lv[2]) > 1:
        f.add('one_key_leaf_between_bigger')
    if all(len(x) == L for x in lv):
        f.add('all_leaves_full')
    nchild = (len(tpl[1]) + 1) // 2
    if nchild == 2 * I - 1:
        f.add('root_about_to_split')

    def interior_full(n):
        if n[0] != 'T':
            return False
        kids = n[1][::2]
        if kids[0][0] == 'T':
            return any(((len(k[1]) + 1) // 2) == I or interior_full(k) for k in kids)
        return False
    if interior_full(tpl):
        f.add('full_interior')

    def single_child_interior(n):
        if n[0] != 'T':
            return False
        kids = n[1][::2]
        return any(k[0] == 'T' and (len(k[1]) == 1 or single_child_interior(k)) for k in kids)
    if single_child_interior(tpl):
        f.add('single_child_interior')
    if depth(tpl) >= 4:
        f.add('depth4')

    # a one-key FIRST leaf of a bottom-level node that is reached through non-first children: emptying it makes the
    # "first bucket went away" status travel up through that many levels before it is resolved
    def nonfirst(n, steps):
        if n[0] != 'T':
            return
        kids = n[1][::2]
        if kids[0][0] == 'B':
            if len(kids[0][1]) == 1 and steps >= 1:
                f.add('nonfirst_bottom_first_leaf_1')
            if len(kids[0][1]) == 1 and steps >= 2:
                f.add('two_nonfirst_steps_first_leaf_1')
            return
        for i, k in enumerate(kids):
            nonfirst(k, steps + (1 if i else 0))
    if tpl[0] == 'T':
        for i, k in enumerate(tpl[1][::2]):
            nonfirst(k, 1 if i else 0)
    return f


# ---------------------------------------------------------------------------
# catalogue

def run_history(cls, history, keyf=lambda r: r, is_set=False):
    t = cls()
    for op, r in history:
        k = keyf(r)
        if op == 'i':
            if is_set:
                t.add(k)
            else:
                t[k] = r
        else:
            if is_set:
                t.remove(k)
            else:
                del t[k]
    return t


def catalogue(cl, kind, N, maxdepth=40, cap=None, sizes=None):
    """-> (dict template -> witness history, stats).  Uses int keys 0..N-1.

    The search runs the REAL code on concrete histories.  A history on which the
    code raises, or whose result fails the cheap sanity checks below, is not
    expanded; it is recorded in stats['failed'] and turned by the property
    generators into a solver-run obligation (re-keyed history + full oracle), so
    that it is reported through the normal counterexample/replay channel."""
    import json as _json
    import os as _os
    is_set = kind == 'TreeSet'
    cls = cl[kind]
    leaf_types = (cl['Set'] if is_set else cl['Bucket'],)
    # a history that KILLS the interpreter: the runner re-runs the generation with that history in the skip file
    # (VERIF_SKIP_HIST); it is then treated like any other misbehaving history
    histlog = _os.environ.get('VERIF_HISTLOG')
    skip = set()
    if _os.environ.get('VERIF_SKIP_HIST') and _os.path.exists(_os.environ['VERIF_SKIP_HIST']):
        for rec in _json.load(open(_os.environ['VERIF_SKIP_HIST'])):
            if rec[0] == kind and rec[1] == list(sizes or ()):
                skip.add(tuple((o_, k_) for o_, k_ in rec[2]))
    seen = {('E',): ()}
    shapes = {('E',): ()}
    frontier = [()]
    failed = []
    d = 0
    while frontier and d < maxdepth:
        nxt = []
        for h in frontier:
            present = set()
            for op, k in h:
                (present.add if op == 'i' else present.discard)(k)
            for k in range(N):
                h2 = h + ((('d', k),) if k in present else (('i', k),))
                if h2 in skip:
                    if len(failed) < 50:
                        failed.append((h2, 'the interpreter died on this history during the catalogue search'))
                    continue
                if histlog:
                    with open(histlog, 'w') as f_:
                        _json.dump([kind, list(sizes or ()), [list(x) for x in h2], N], f_)
                try:
                    t = run_history(cls, h2, is_set=is_set)
                    a = raw(t, is_set, leaf_types)
                    p2 = sorted(present ^ {k})
                    if list(t.keys()) != p2 or sorted(set(leaf_keys(a))) != p2 or len(leaf_keys(a)) != len(p2):
                        raise AssertionError('contents differ from the history')
                    t._check()
                except Exception as e:      # noqa: the code under test misbehaves on a concrete history
                    if len(failed) < 50:
                        failed.append((h2, '%s: %s' % (type(e).__name__, e)))
                    continue
                if a not in seen:
                    seen[a] = h2
                    nxt.append(h2)
                    tpl, _ = template_of(t, is_set, leaf_types)
                    shapes.setdefault(tpl, h2)
        frontier = nxt
        d += 1
        if cap and len(shapes) >= cap:
            break
    stats = {'N': N, 'abs_states': len(seen), 'shapes': len(shapes), 'depth': d,
             'saturated': not frontier, 'failed_histories': len(failed),
             'failed': [[[list(x) for x in h], e] for h, e in failed[:12]]}
    return shapes, stats


def stratify(shapes, L, I, want=None):
    """core: for every feature, the smallest shape (fewest ranks, then order) that has it."""
    core = {}
    order = sorted(shapes, key=lambda s: (n_ranks(s), len(repr(s)), repr(s)))
    for s in order:
        for f in features(s, L, I):
            if want is None or f in want:
                core.setdefault(f, s)
    out = []
    for f in sorted(core):
        if core[f] not in out:
            out.append(core[f])
    return out


# ---------------------------------------------------------------------------
# building a pre-state from a template with arbitrary (symbolic) keys

def build_loaded(tpl, keys, cl, kind, val=lambda r: 100 + r):
    """Bottom-up construction through __setstate__, exactly as a database load
    would do it.  keys[r] is the key object for rank r."""
    is_set = kind in ('TreeSet', 'Set')
    tree_cls = cl['TreeSet' if is_set else 'BTree']
    leaf_cls = cl['Set' if is_set else 'Bucket']

    def leaf_state(ranks):
        if is_set:
            return tuple(keys[r] for r in ranks)
        out = []
        for r in ranks:
            out.append(keys[r])
            out.append(val(r))
        return tuple(out)

    if tpl[0] == 'E':
        return tree_cls()
    if tpl[0] == 'T1':
        t = tree_cls()
        t.__setstate__((((leaf_state(tpl[1]),),),))
        return t
    # collect leaves in order to wire next pointers
    lv = []

    def collect(n):
        if n[0] == 'B':
            lv.append(n)
        else:
            for x in n[1][::2]:
                collect(x)
    collect(tpl)
    objs = []
    nxt = None
    for n in reversed(lv):
        b = leaf_cls()
        b.__setstate__((leaf_state(n[1]),) if nxt is None else (leaf_state(n[1]), nxt))
        objs.append(b)
        nxt = b
    objs.reverse()
    it = iter(objs)

    def mk(n):
        if n[0] == 'B':
            b = next(it)
            return b, b
        kids = []
        first = None
        for i, x in enumerate(n[1]):
            if i % 2:
                kids.append(keys[x])
            else:
                o, fb = mk(x)
                if first is None:
                    first = fb
                kids.append(o)
        t = tree_cls()
        t.__setstate__((tuple(kids), first))
        return t, first
    return mk(tpl)[0]


def build_grown(history, ukeys, cl, kind, val=lambda r: 100 + r):
    """Replay the witness history through the public API with re-keyed keys."""
    is_set = kind in ('TreeSet', 'Set')
    t = cl[kind]()
    for op, r in history:
        if op == 'i':
            if is_set:
                t.add(ukeys[r])
            else:
                t[ukeys[r]] = val(r)
        else:
            if is_set:
                t.remove(ukeys[r])
            else:
                del t[ukeys[r]]
    return t


def model_of(tpl, keys, is_set, val=lambda r: 100 + r):
    rk = sorted(set(leaf_keys(tpl)))
    if is_set:
        return [keys[r] for r in rk]
    return [(keys[r], val(r)) for r in rk]


def grown_ranks(history):
    """universe keys alive or used by the history (to map universe->symbols)."""
    return sorted({k for _, k in history})


# ---------------------------------------------------------------------------
# independent structural walker (C03 oracle).  Uses only public state.

class Unsound(Exception):
    pass


def walk(t, cl, kind, L=None, I=None, lt=None, check_sizes=True):
    """Independent soundness walk; returns the ordered list of entries.

    lt(a, b): strict order on keys (defaults to a < b with None smallest).
    Raises Unsound(reason)."""
    tg = tag(t)
    try:
        return _walk(t, cl, kind, L, I, lt, check_sizes)
    finally:
        untag(tg)


def _walk(t, cl, kind, L, I, lt, check_sizes):
    is_set = kind in ('TreeSet', 'Set')
    tree_cls = cl['TreeSet' if is_set else 'BTree']
    leaf_cls = cl['Set' if is_set else 'Bucket']
    if lt is None:
        def lt(a, b):
            if a is None:
                return b is not None
            if b is None:
                return False
            return a < b

    def bad(msg):
        raise Unsound(msg)

    def leaf_entries(s):
        d = s[0]
        if is_set:
            return list(d)
        if len(d) % 2:
            bad('odd-length mapping leaf state')
        return [(d[i], d[i + 1]) for i in range(0, len(d), 2)]

    st = t.__getstate__()
    if st is None:
        if t._firstbucket is not None:
            bad('empty tree with a first leaf')
        return []
    if len(st) == 1:
        # root with one leaf that is not on the chain (tagging found nothing)
        bad('root embeds a leaf that is not its first leaf')

    by_descent = []

    def desc(node, lo, hi, is_root):
        s = node.__getstate__()
        if type(node) is leaf_cls:
            if s is None:
                bad('leaf without state')
            ents = leaf_entries(s)
            ks = ents if is_set else [e[0] for e in ents]
            if len(ks) == 0:
                bad('empty leaf in non-empty tree')
            if check_sizes and L is not None and len(ks) > L:
                bad('leaf larger than max_leaf_size')
            for k in ks:
                if lo is not None and lt(k, lo[0]):
                    bad('key below the range promised by separators')
                if hi is not None and not lt(k, hi[0]):
                    bad('key not below the next separator')
            by_descent.append(node)
            return
        if type(node) is not tree_cls:
            bad('child of unexpected type %r' % type(node))
        if s is None:
            bad('empty interior node in non-empty tree')
        if len(s) == 1:
            bad('node embeds a leaf that is not on the leaf chain')
        items, fb = s
        kids = items[::2]
        seps = items[1::2]
        if len(kids) == 0:
            bad('interior node without children')
        if check_sizes and I is not None:
            if is_root:
                if len(kids) >= 2 * I:
                    bad('root has >= 2*max_internal_size children')
            elif len(kids) > I:
                bad('interior node larger than max_internal_size')
        kinds = {(type(k) is tree_cls) for k in kids}
        if len(kinds) != 1:
            bad('children of mixed kinds')
        for a, b in zip(seps, seps[1:]):
            if not lt(a, b):
                bad('separators not strictly ascending')
        if lo is not None and seps and lt(seps[0], lo[0]):
            bad('separator below the range promised by ancestors')
        if hi is not None and seps and not lt(seps[-1], hi[0]):
            bad('separator not below the ancestors\' next separator')
        mark = len(by_descent)
        for i, kid in enumerate(kids):
            l = (seps[i - 1],) if i > 0 else lo
            h = (seps[i],) if i < len(seps) else hi
            desc(kid, l, h, False)
        if fb is not by_descent[mark]:
            bad('node\'s first-leaf pointer is not its leftmost leaf')

    desc(t, None, None, True)
    chain = []
    b = st[1]
    seen_ids = set()
    while b is not None:
        if id(b) in seen_ids:
            bad('leaf chain has a cycle')
        seen_ids.add(id(b))
        chain.append(b)
        b = b._next
    if len(chain) != len(by_descent) or any(x is not y for x, y in zip(chain, by_descent)):
        bad('leaf chain and leaves by descent differ (%d vs %d)' % (len(chain), len(by_descent)))
    ents = []
    for b in chain:
        ents.extend(leaf_entries(b.__getstate__()))
    _ascending(ents, is_set, lt, bad)
    return ents


def _ascending(ents, is_set, lt, bad):
    ks = ents if is_set else [e[0] for e in ents]
    for a, b in zip(ks, ks[1:]):
        if not lt(a, b):
            bad('entries not strictly ascending')


def stratify_large(shapes, L, I):
    """for every feature, the LARGEST shape (most ranks) that has it."""
    core = {}
    order = sorted(shapes, key=lambda s: (-n_ranks(s), -len(repr(s)), repr(s)))
    for s in order:
        for f in features(s, L, I):
            if f in ('depth4', 'two_nonfirst_steps_first_leaf_1', 'nonfirst_bottom_first_leaf_1'):
                continue        # deep features: the SMALLEST shape having them is what the quick cores take
            core.setdefault(f, s)
    out = []
    for f in sorted(core):
        if core[f] not in out:
            out.append(core[f])
    return out


def stale_variant(tpl):
    """Same structure, but every separator is a key of its own lying strictly
    between the largest key to its left and the smallest key to its right
    (a 'stale' separator: legal by the documented invariant
    sep(i) <= keys(child i) < sep(i+1), found in stored trees, but not equal to
    any stored key).  Returns None when the template has no separator."""
    if tpl[0] != 'T':
        return None

    def conv(n):
        if n[0] == 'B':
            return ('B', tuple(2 * r for r in n[1]))
        out = []
        for i, x in enumerate(n[1]):
            out.append(2 * x - 1 if i % 2 else conv(x))
        return ('T', tuple(out))
    t2 = conv(tpl)
    ks = sorted(set(all_keys(t2)))
    return rerank(t2, {k: i for i, k in enumerate(ks)})


def tag_all(t):
    """Fake oids on every node below the root (leaves and interior nodes), as in
    a database in which every node has been stored: __getstate__ then never
    embeds a leaf state inline.  -> objects to untag."""
    out = tag(t)
    n = [0]

    def rec(node):
        st = node.__getstate__()
        if st is None or len(st) == 1:
            return
        for x in st[0][::2]:
            if hasattr(x, '_firstbucket') and type(x) is type(node):
                if x._p_oid is None and x._p_jar is None:
                    x._p_oid = _FAKE + b'T' + n[0].to_bytes(2, 'big')
                    n[0] += 1
                    out.append(x)
                rec(x)
    try:
        if hasattr(t, '_firstbucket'):
            rec(t)
    except Exception:
        untag(out)
        raise
    finally:
        rec = None      # break the closure cycle: it would pin `out` (every node) until the next gc
    return out


def embedded_nonroot(tpl):
    """template has a NON-root interior node whose only child is a leaf: with no
    oids anywhere such a node serialises its leaf inline although the leaf is
    also referenced by its predecessor's next pointer."""
    def rec(n, root):
        if n[0] != 'T':
            return False
        kids = n[1][::2]
        if not root and len(kids) == 1 and kids[0][0] == 'B':
            return True
        return any(rec(k, False) for k in kids)
    return rec(tpl, True)
