"""Obligation runner: ./check <property> [--thorough] [--replay file]

Builds the BTrees package from /repo's current working tree, generates the
property's obligations, decides each one with the solver (CrossHair / llsym
workers), replays every counterexample concretely in a fresh interpreter and
only then reports it.  Exit codes: 0 held on everything explored, 1 violation
(with a `VIOLATION property=<id> replay=<path>` line), 2 harness error.
"""
import argparse
import hashlib
import json
import os
import queue
import shutil
import subprocess
import sys
import threading
import time

VERIF = os.path.dirname(os.path.dirname(os.path.abspath(__file__)))
sys.path.insert(0, VERIF)
from engine import build  # noqa: E402

PY = sys.executable
KNOWN = os.path.join(VERIF, 'known_findings.json')
NWORKERS = int(os.environ.get('VERIF_WORKERS', '15'))
_EXTRA_SCRATCH = []


def log(*a):
    print(*a, flush=True)


_WID = [0]


_Z3_LOCK = threading.Lock()


class Worker:
    def __init__(self, scratch, env):
        self.scratch = scratch
        _WID[0] += 1
        self.journal = os.path.join(scratch, 'journal.%d' % _WID[0])
        self.env = dict(env, VERIF_JOURNAL=self.journal)
        self.p = None
        self.start()

    def start(self):
        self.p = subprocess.Popen([PY, os.path.join(VERIF, 'engine', 'worker.py'), self.scratch],
                                  stdin=subprocess.PIPE, stdout=subprocess.PIPE,
                                  stderr=open(os.path.join(self.scratch, 'worker.err'), 'a'),
                                  text=True, env=self.env, cwd=VERIF)

    def run(self, ob, hard_timeout):
        if self.p.poll() is not None:
            self.start()
        try:
            open(self.journal, 'w').close()      # one obligation per journal
        except OSError:
            pass
        try:
            self.p.stdin.write(json.dumps(ob) + '\n')
            self.p.stdin.flush()
        except BrokenPipeError:
            self.start()
            self.p.stdin.write(json.dumps(ob) + '\n')
            self.p.stdin.flush()
        box = {}

        def rd():
            box['line'] = self.p.stdout.readline()
        th = threading.Thread(target=rd, daemon=True)
        th.start()
        th.join(hard_timeout)
        if th.is_alive():
            self.p.kill()
            th.join(5)
            self.start()
            return {'id': ob['id'], 'verdict': 'inconclusive', 'detail': 'hard timeout %ss' % hard_timeout}
        line = box.get('line', '')
        if not line:
            rc = self.p.wait()
            self.start()
            with _Z3_LOCK:          # z3 is not re-entrant: two workers may die at the same moment
                cex = solve_journal(self.journal, ob)
            return {'id': ob['id'], 'verdict': 'crash', 'detail': 'worker died rc=%s' % rc, 'cex': cex}
        return json.loads(line)

    def close(self):
        try:
            self.p.stdin.close()
            self.p.wait(5)
        except Exception:
            self.p.kill()


def _pre_to_z3(pre, V):
    """preconditions are chains like 'a < b < c', '0 <= op < 3', 'p == 0'"""
    import re
    import z3
    out = []
    toks = re.split(r'\s*(<=|<|==|>=|>)\s*', pre.strip())
    terms = toks[0::2]
    ops = toks[1::2]

    def term(t):
        t = t.strip()
        if re.fullmatch(r'-?\d+', t):
            return int(t)
        return V(t)
    for i, o in enumerate(ops):
        l, r = term(terms[i]), term(terms[i + 1])
        out.append({'<': l < r, '<=': l <= r, '==': l == r, '>=': l >= r, '>': l > r}[o])
    return out


def solve_journal(path, ob):
    """Concrete arguments for the path on which the worker died: the journal
    holds every solver decision taken on that path before the crash."""
    try:
        import z3
        lines = [json.loads(l) for l in open(path) if l.strip()]
    except Exception:       # noqa
        return None
    last = 0
    for i, r in enumerate(lines):
        if r[0] == 'PATH':
            last = i
    recs = lines[last + 1:]
    names = ['k%d' % i for i in range(ob.get('nk', 0))] + [n for n, _ in ob.get('args', [])]
    types = dict(ob.get('args', []))
    vs = {}

    def V(n):
        if n not in vs:
            vs[n] = z3.Int(n)
        return vs[n]
    s = z3.Solver()
    nk = ob.get('nk', 0)
    for i in range(nk - 1):
        s.add(V('k%d' % i) < V('k%d' % (i + 1)))
    for pre in ob.get('pre', []):
        try:
            s.add(*_pre_to_z3(pre, V))
        except Exception:   # noqa
            pass
    bools = {}
    for r in recs:
        if r[0] == 'cmp' and r[1] and r[3]:
            a, b = V(r[1]), V(r[3])
            c = {'lt': a < b, 'gt': a > b, 'eq': a == b}[r[2]]
            s.add(c if r[4] else z3.Not(c))
        elif r[0] == 'sel' and r[1]:
            if types.get(r[1]) == 'bool':
                bools[r[1]] = bool(r[2])
            else:
                s.add(V(r[1]) == int(r[2]))
        elif r[0] == 'idx' and r[1]:
            c = V(r[1]) == int(r[2])
            s.add(c if r[3] else z3.Not(c))
    if str(s.check()) != 'sat':
        return None
    m = s.model()
    cex = {}
    for n in names:
        if types.get(n) == 'bool':
            cex[n] = bools.get(n, False)
        else:
            cex[n] = m.eval(V(n), model_completion=True).as_long()
    return cex


FAILFAST = bool(os.environ.get('VERIF_FAILFAST'))


def run_pool(obs, scratch, env, nworkers=None, progress=None):
    nworkers = nworkers or NWORKERS
    q = queue.Queue()
    for ob in obs:
        q.put(ob)
    results = []
    lock = threading.Lock()

    def loop():
        w = Worker(scratch, env)
        while True:
            try:
                ob = q.get_nowait()
            except queue.Empty:
                break
            hard = ob.get('timeout', 60) * 2 + ob.get('twin_timeout', 30) + 60
            r = w.run(ob, hard)
            r['_ob'] = ob
            with lock:
                results.append(r)
                if progress:
                    progress(r, len(results), len(obs))
                if FAILFAST and r.get('verdict') in ('counterexample', 'crash', 'error'):
                    # seed-matrix mode only: the remaining obligations are skipped once something fails
                    try:
                        while True:
                            q.get_nowait()
                    except queue.Empty:
                        pass
        w.close()
    ths = [threading.Thread(target=loop) for _ in range(min(nworkers, max(1, len(obs))))]
    for t in ths:
        t.start()
    for t in ths:
        t.join()
    return results


def worker_env(scratch, asan=False, ignore_known=False):
    env = dict(os.environ)
    env['PYTHONPATH'] = scratch + os.pathsep + VERIF
    env['VERIF_KNOWN_FINDINGS'] = KNOWN
    env['PYTHONHASHSEED'] = '0'
    env.pop('PURE_PYTHON', None)
    if ignore_known:
        env['VERIF_IGNORE_KNOWN'] = '1'
    if asan:
        env['LD_PRELOAD'] = build.asan_runtime()
        env['ASAN_OPTIONS'] = 'detect_leaks=0:abort_on_error=1'
    return env


def concrete_replay(ob, cex, scratch, ignore_known=True):
    """fresh plain interpreter, no CrossHair: does the real code really fail?"""
    req = dict(ob)
    req['engine'] = 'concrete'
    req['cex'] = cex
    asan = bool(ob.get('_asan_scratch'))
    if asan:
        scratch = ob['_asan_scratch']        # obligations of the sanitizer pass are replayed on the sanitizer build
    env = worker_env(scratch, asan=asan, ignore_known=ignore_known)
    p = subprocess.run([PY, os.path.join(VERIF, 'engine', 'worker.py'), scratch],
                       input=json.dumps(req) + '\n', capture_output=True, text=True, env=env, cwd=VERIF,
                       timeout=300)
    out = [l for l in p.stdout.splitlines() if l.strip()]
    if p.returncode != 0 and not out:
        return {'reproduced': True, 'what': 'process died with return code %s' % p.returncode, 'crash': True}
    if not out:
        return {'reproduced': False, 'error': 'no output', 'stderr': p.stderr[-500:]}
    return json.loads(out[-1])


def load_known():
    if os.path.exists(KNOWN):
        return json.load(open(KNOWN))
    return {'findings': [], 'fixed': []}


def main(argv=None):
    ap = argparse.ArgumentParser()
    ap.add_argument('prop')
    ap.add_argument('--thorough', action='store_true')
    ap.add_argument('--replay')
    ap.add_argument('--only', help='substring filter on obligation ids (debugging)')
    ap.add_argument('--keep', action='store_true')
    ap.add_argument('--list', action='store_true')
    ap.add_argument('--no-evidence', action='store_true')
    ap.add_argument('--dump', help='write raw per-obligation results (debugging)')
    ap.add_argument('--asan', action='store_true', help='also run the sanitizer pass in the quick tier')
    ap.add_argument('--no-asan', action='store_true')
    a = ap.parse_args(argv)
    tier = 'thorough' if (a.thorough or os.environ.get('VERIF_TIER') == 'thorough') else 'quick'
    seed = int(os.environ.get('VERIF_SEED', '0') or 0)
    pid = a.prop
    t_start = time.time()

    from harness import props
    if pid not in props.PROPS:
        log('unknown property', pid)
        return 2
    spec = props.PROPS[pid]

    replay_ob = None
    if a.replay:
        replay_ob = json.load(open(a.replay))

    # ---- build from the current working tree
    fams = spec['families'] if tier == 'quick' else spec.get('families_thorough', spec['families'])
    try:
        scratch, binfo = build.build(fams, hook=spec.get('hook', False))
    except Exception as e:
        log('BUILD FAILED:', e)
        return 2
    asan_dir = None
    try:
        return _run(a, pid, spec, tier, seed, scratch, binfo, t_start, replay_ob)
    finally:
        for d_ in _EXTRA_SCRATCH:
            shutil.rmtree(d_, ignore_errors=True)
        if not a.keep:
            shutil.rmtree(scratch, ignore_errors=True)
        else:
            log('kept', scratch)


def _run(a, pid, spec, tier, seed, scratch, binfo, t_start, replay_ob):
    env = worker_env(scratch)
    if replay_ob is not None:
        r = concrete_replay(replay_ob['obligation'], replay_ob['cex'], scratch)
        log(json.dumps(r, indent=1))
        if r.get('reproduced'):
            log('VIOLATION property=%s replay=%s' % (pid, a.replay))
            return 1
        log('replay does not fail on the current tree')
        return 0

    # ---- generate obligations (subprocess: the catalogue runs the real code)
    histlog, skipf = os.path.join(scratch, 'histlog.json'), os.path.join(scratch, 'skip_hist.json')
    genv = dict(env, VERIF_HISTLOG=histlog, VERIF_SKIP_HIST=skipf)
    skipped = []
    for attempt in range(8):
        g = subprocess.run([PY, os.path.join(VERIF, 'engine', 'gen.py'), pid, tier, str(seed), scratch],
                           capture_output=True, text=True, env=genv, cwd=VERIF)
        if g.returncode >= 0 or not os.path.exists(histlog):
            break
        # the catalogue search (real code, concrete insert/delete history through the public API) killed the
        # interpreter: skip that history, go on; it comes back as a `history` obligation where the property has one
        try:
            rec = json.load(open(histlog))
        except Exception:   # noqa
            break
        if rec in skipped:
            break
        skipped.append(rec)
        json.dump(skipped, open(skipf, 'w'))
        log('[%s] the catalogue search died (signal %d) on history %s: skipped' % (pid, -g.returncode, rec[2]))
    if g.returncode < 0 and skipped and pid in ('C01', 'C03', 'C16'):
        # the search keeps dying (heap damage accumulates over histories): the run of concrete insert/delete histories
        # through the public API that kills the interpreter is itself the counterexample - replay it in a fresh process
        rec = skipped[0]
        ob = dict(id='%s/catalogue-crash/%s' % (pid, rec[0]), mod='h_step', fn='catalogue_crash', nk=0, args=[],
                  params=dict(family='OO', kind=rec[0], L=rec[1][0], I=rec[1][1], N=rec[3]))
        rr = concrete_replay(ob, {}, scratch, ignore_known=False)
        if rr.get('reproduced') and rr.get('crash'):
            path = os.path.join(VERIF, 'replays', '%s-catalogue-crash.json' % pid)
            os.makedirs(os.path.dirname(path), exist_ok=True)
            json.dump({'property': pid, 'obligation': ob, 'cex': {}, 'what': 'insert/delete histories over %d keys through the public API '
                       'kill the interpreter (%s)' % (rec[3], rr.get('what'))}, open(path, 'w'), indent=1)
            log('VIOLATION property=%s replay=%s  (the breadth-first run of insert/delete histories over %d keys at node sizes %s kills the '
                'interpreter: %s)' % (pid, path, rec[3], rec[1], rr.get('what')))
            return 1
    if g.returncode != 0:
        log('GENERATION FAILED rc=%s\n%s' % (g.returncode, g.stderr[-3000:]))
        return 2
    gen = json.loads(g.stdout)
    obs = gen['obligations']
    if a.only:
        obs = [o for o in obs if a.only in o['id']]
    if a.list:
        for o in obs:
            log(o['id'])
        log(len(obs), 'obligations')
        return 0
    log('[%s] tier=%s seed=%d build=%.1fs families=%s obligations=%d' % (
        pid, tier, seed, binfo['build_s'], ','.join(binfo['families']), len(obs)))

    def progress(r, i, n):
        v = r.get('verdict')
        if v not in ('confirmed',) or i % 50 == 0 or i == n:
            log('  [%d/%d] %s %s %s' % (i, n, v, r['id'], (r.get('detail') or '')[:200] if v != 'confirmed' else ''))

    results = run_pool(obs, scratch, env, progress=progress)

    # ---- sanitizer pass (thorough tier of the properties that ask for it): the same obligations on an
    # ASan+UBSan+assert build of the extension; the sanitizer is the per-path oracle for "stays inside its
    # memory", the exploration is still the solver's.  A sanitizer abort kills the worker -> journal replay.
    asan_info = None
    if (tier == 'thorough' or a.asan) and spec.get('asan') and not a.no_asan:
        t1 = time.time()
        try:
            scratch2, binfo2 = build.build([f for f in spec['families'] if f == 'OO'] or spec['families'][:1],
                                           hook=spec.get('hook', False), asan=True)
            _EXTRA_SCRATCH.append(scratch2)
        except Exception as e:
            log('ASAN BUILD FAILED:', e)
            return 2
        try:
            sub = [dict(o, id=o['id'] + '@asan', _asan_scratch=scratch2) for o in obs
                   if o.get('engine') != 'llsym' and ('/core/' in o['id'] or '/l3/' in o['id'] or '/n' in o['id'].rsplit('/', 2)[-2])]
            sub = sub[:int(os.environ.get('VERIF_ASAN_MAX', '400'))]
            log('[%s] sanitizer pass: %d obligations on the ASan+UBSan build (%.1fs build)' % (pid, len(sub), binfo2['build_s']))
            res2 = run_pool(sub, scratch2, worker_env(scratch2, asan=True), progress=progress)
            # verdicts of the sanitizer pass are handled like the others; keep the build until replays are done
            results += res2
            asan_info = {'obligations': len(sub), 'wall_s': round(time.time() - t1, 1), 'build_s': binfo2['build_s']}
            spec = dict(spec, _asan_scratch=scratch2, _asan_info=asan_info)
        except Exception:
            shutil.rmtree(scratch2, ignore_errors=True)
            raise

    if a.dump:
        json.dump([{k: v for k, v in r.items() if k != '_ob'} for r in results], open(a.dump, 'w'), indent=1, default=repr)

    # ---- verdicts
    known = load_known()
    violations = []
    harness_errors = []
    inconclusive = []
    discharged = 0
    kf_lines = []
    for r in results:
        v = r.get('verdict')
        ob = r['_ob']
        if v == 'confirmed':
            discharged += 1
        elif v == 'counterexample':
            cex = r.get('cex')
            if cex is None:
                harness_errors.append((r['id'], 'counterexample without parsable arguments: %s' % r.get('detail')))
                continue
            rr = concrete_replay(ob, cex, scratch, ignore_known=False)
            if rr.get('reproduced'):
                h = hashlib.sha1(json.dumps([ob['id'], cex], sort_keys=True).encode()).hexdigest()[:10]
                path = os.path.join(VERIF, 'replays', '%s-%s.json' % (pid, h))
                os.makedirs(os.path.dirname(path), exist_ok=True)
                json.dump({'property': pid, 'obligation': ob, 'cex': cex, 'what': rr.get('what'),
                           'detail': rr.get('detail')}, open(path, 'w'), indent=1)
                violations.append((r['id'], path, rr.get('what')))
            else:
                harness_errors.append((r['id'], 'counterexample %r does not reproduce concretely: %s / %s' % (
                    cex, r.get('detail'), rr)))
        elif v in ('error',):
            harness_errors.append((r['id'], (r.get('detail') or '') + '\n' + (r.get('tb') or '')))
        elif v == 'crash':
            # the code under test killed the interpreter on some solver-chosen path: the decision
            # journal of that path was solved for concrete arguments; replay them natively
            cex = r.get('cex')
            rr = concrete_replay(ob, cex, scratch, ignore_known=False) if cex is not None else {}
            if rr.get('reproduced') and rr.get('crash'):
                h = hashlib.sha1(json.dumps([ob['id'], cex], sort_keys=True).encode()).hexdigest()[:10]
                path = os.path.join(VERIF, 'replays', '%s-%s.json' % (pid, h))
                os.makedirs(os.path.dirname(path), exist_ok=True)
                json.dump({'property': pid, 'obligation': ob, 'cex': cex, 'what': 'the interpreter is killed: ' + str(rr.get('what')),
                           'detail': r.get('detail')}, open(path, 'w'), indent=1)
                violations.append((r['id'], path, 'the code under test kills the interpreter (%s)' % rr.get('what')))
            elif rr.get('reproduced'):
                h = hashlib.sha1(json.dumps([ob['id'], cex], sort_keys=True).encode()).hexdigest()[:10]
                path = os.path.join(VERIF, 'replays', '%s-%s.json' % (pid, h))
                os.makedirs(os.path.dirname(path), exist_ok=True)
                json.dump({'property': pid, 'obligation': ob, 'cex': cex, 'what': rr.get('what'), 'detail': rr.get('detail')},
                          open(path, 'w'), indent=1)
                violations.append((r['id'], path, rr.get('what')))
            else:
                harness_errors.append((r['id'], 'worker crashed (%s); journal replay %r did not reproduce it: %r' % (
                    r.get('detail'), cex, rr)))
        else:
            inconclusive.append((r['id'], r.get('detail')))

    # ---- witnesses of open known findings: still failing?
    for f in known.get('findings', []):
        if f.get('property') != pid or f.get('status') != 'open':
            continue
        rp = f.get('replay')
        if not rp:
            continue
        rr = concrete_replay(rp['obligation'], rp['cex'], scratch, ignore_known=True)
        if rr.get('reproduced'):
            kf_lines.append('KNOWN-FINDING: property=%s %s [%s]' % (pid, f['what'], f['id']))

    # ---- replays of repaired defects: a fixed entry suppresses nothing, it is re-checked
    for f in known.get('fixed', []):
        if f.get('property') != pid or not f.get('replay'):
            continue
        rp = f['replay']
        # open known findings stay cut out here: the input may also lie in the region of one
        rr = concrete_replay(rp['obligation'], rp['cex'], scratch, ignore_known=False)
        if rr.get('reproduced'):
            path = os.path.join(VERIF, 'replays', '%s-regressed-%s.json' % (pid, f.get('commit')))
            os.makedirs(os.path.dirname(path), exist_ok=True)
            json.dump({'property': pid, 'obligation': rp['obligation'], 'cex': rp['cex'], 'what': rr.get('what'),
                       'detail': rr.get('detail')}, open(path, 'w'), indent=1)
            violations.append((rp['obligation']['id'], path, 'repaired defect is back: ' + str(rr.get('what'))))

    for l in kf_lines:
        log(l)
    for i, d in inconclusive:
        log('INCONCLUSIVE obligation=%s %s' % (i, (d or '')[:300]))
    for i, d in harness_errors:
        log('HARNESS-ERROR obligation=%s %s' % (i, d[:1500]))
    for i, p, w in violations:
        log('VIOLATION property=%s replay=%s  (%s: %s)' % (pid, p, i, w))

    wall = time.time() - t_start
    if not a.no_evidence and not a.only:
        write_evidence(pid, spec, tier, seed, gen, results, discharged, inconclusive, violations,
                       harness_errors, kf_lines, binfo, wall)
    n = len(results)
    log('[%s] obligations=%d discharged=%d inconclusive=%d violations=%d harness_errors=%d wall=%.1fs' % (
        pid, n, discharged, len(inconclusive), len(violations), len(harness_errors), wall))
    if violations:
        return 1
    if harness_errors:
        return 2
    core_inc = [i for i, _ in inconclusive if '/core/' in i]
    if n and (len(inconclusive) > 0.2 * n):
        log('too many inconclusive obligations: a time-out is not a success')
        return 2
    return 0


def write_evidence(pid, spec, tier, seed, gen, results, discharged, inconclusive, violations,
                   harness_errors, kf_lines, binfo, wall):
    paths = sum(r.get('paths', 0) for r in results)
    forked = sum(r.get('paths', 0) for r in results if r.get('paths', 0) > 1 and r.get('verdict') == 'confirmed')
    samples = []
    for r in results:
        if r.get('witness') and len(samples) < 6:
            samples.append({'obligation': r['id'], 'solver_witness_reaching_end_of_harness': r['witness'],
                            'paths': r.get('paths'), 'solver_queries': r.get('solver_queries')})
    if not samples:
        samples = [{'obligation': r['id'], 'paths': r.get('paths')} for r in results[:3]]
    ev = {
        'property_id': pid,
        'tier': tier,
        'seed': seed,
        'level': 'other',
        'coverage': {
            'explanation': spec['explanation'],
            'technique': spec.get('technique', 'bounded symbolic execution of the real code decided by z3 (CrossHair)'),
            'obligations': len(results),
            'discharged': discharged,
            'inconclusive': len(inconclusive),
            'inconclusive_ids': [i for i, _ in inconclusive][:40],
            'evaluations': max(paths, len(results)),
            'distinct_nontrivial': forked,
            'rule': 'one evaluation = one execution path explored to its end by the symbolic executor (a distinct '
                    'feasible outcome vector of all branch decisions the real code took on symbolic data); '
                    'non-trivial = path of an obligation whose path tree forked at least once and was exhausted '
                    '(CONFIRMED); paths of one obligation are distinct by construction of the search tree',
            'samples': samples,
            'paths': paths,
            'solver_queries': sum(r.get('solver_queries', 0) for r in results),
            'solver_time_s': round(sum(r.get('solver_s', 0) for r in results), 2),
            'cpu_s_in_obligations': round(sum(r.get('wall_s', 0) + r.get('twin_s', 0) for r in results), 1),
            'twins_refuted': sum(1 for r in results if r.get('twin_refuted')),
            'functions_encoded': spec.get('functions', []),
            'bounds': gen.get('bounds', {}),
            'stubs': spec.get('stubs', []),
            'known_findings': kf_lines,
            'build': {k: binfo[k] for k in ('families', 'hook', 'source_sha256', 'build_s')},
            'sanitizer_pass': spec.get('_asan_info'),
            'exhaustive': False,
        },
        'assumptions': spec.get('assumptions', []) + [
            'CrossHair 0.0.110 path exhaustion is sound (CONFIRMED only when the path tree is exhausted)',
            'z3 verdicts', 'CPython 3.12 and the persistent package behave as documented'],
        'wall_s': round(wall, 2),
        'violations': len(violations),
    }
    os.makedirs(os.path.join(VERIF, 'evidence'), exist_ok=True)
    with open(os.path.join(VERIF, 'evidence', '%s.json' % pid), 'w') as f:
        json.dump(ev, f, indent=1, default=repr)


if __name__ == '__main__':
    sys.exit(main())
