"""Build a scratch BTrees package from /repo's *current working tree*.

The package directory holds symlink-free copies of the python sources (so a
later edit of /repo during a run cannot tear a check) and freshly compiled
extension modules for the requested families only.  Nothing prebuilt under
/repo/src/BTrees (stale .so files) or installed in /venv is ever importable:
the overlay venv does not see /venv's editable finder, and the scratch
directory is the only place that provides `BTrees`.
"""
import concurrent.futures
import glob
import hashlib
import os
import shutil
import subprocess
import sys
import sysconfig
import tempfile
import time

REPO = os.environ.get('VERIF_REPO', '/repo')
SRC = os.path.join(REPO, 'src', 'BTrees')
PINC = os.path.join(REPO, 'include', 'persistent')
ALL_FAMILIES = ("IO II IF IU UO UU UF UI LO LL LF LQ QO QQ QF QL OO OI OU OL OQ fs").split()
GUARD = 'BTREES_VERIF'


def _cc_cmd(family, out, variant):
    inc = sysconfig.get_paths()['include']
    src = os.path.join(SRC, '_%sBTree.c' % family)
    defs = []
    if family[0] != 'O' and family != 'fs':
        defs.append('-DEXCLUDE_INTSET_SUPPORT')
    if family == 'fs':
        defs.append('-DEXCLUDE_INTSET_SUPPORT')
    if variant.get('hook'):
        defs.append('-D%s=1' % GUARD)
    if variant.get('asan'):
        cc = ['clang-14', '-O1', '-g', '-fno-omit-frame-pointer',
              '-fsanitize=address,undefined', '-fno-sanitize-recover=undefined']
    else:
        cc = ['gcc', '-O2', '-DNDEBUG', '-fno-strict-overflow', '-g0']
    return cc + ['-shared', '-fPIC', '-w'] + defs + [
        '-I' + inc, '-I' + PINC, '-I' + SRC, src, '-o', out]


def build(families, hook=False, asan=False, dest=None):
    """Returns (scratch_dir, info).  Caller removes scratch_dir."""
    t0 = time.time()
    dest = dest or tempfile.mkdtemp(prefix='btv.')
    pkg = os.path.join(dest, 'BTrees')
    os.makedirs(pkg, exist_ok=True)
    digest = hashlib.sha256()
    for p in sorted(glob.glob(os.path.join(SRC, '*.py'))):
        shutil.copy(p, pkg)
        digest.update(open(p, 'rb').read())
    for p in sorted(glob.glob(os.path.join(SRC, '*.[ch]'))):
        digest.update(open(p, 'rb').read())
    suffix = sysconfig.get_config_var('EXT_SUFFIX')
    variant = {'hook': hook, 'asan': asan}
    env = dict(os.environ)
    if hook:
        env[GUARD] = '1'
    jobs = {}
    with concurrent.futures.ThreadPoolExecutor(max_workers=16) as ex:
        for fam in families:
            out = os.path.join(pkg, '_%sBTree%s' % (fam, suffix))
            cmd = _cc_cmd(fam, out, variant)
            jobs[fam] = ex.submit(subprocess.run, cmd, capture_output=True, text=True, env=env)
    errs = []
    for fam, fut in jobs.items():
        r = fut.result()
        if r.returncode != 0:
            errs.append((fam, r.stderr[-2000:]))
    if errs:
        shutil.rmtree(dest, ignore_errors=True)
        raise RuntimeError('build failed: %r' % errs)
    info = {'families': list(families), 'hook': hook, 'asan': asan,
            'source_sha256': digest.hexdigest()[:16], 'build_s': round(time.time() - t0, 2),
            'dir': dest}
    return dest, info


def asan_runtime():
    r = subprocess.run(['clang-14', '-print-file-name=libclang_rt.asan-x86_64.so'],
                       capture_output=True, text=True)
    return r.stdout.strip()


def emit_ll(family, dest, opt='-O1'):
    """Lower one family source to LLVM IR text (for engine E2)."""
    inc = sysconfig.get_paths()['include']
    out = os.path.join(dest, '_%sBTree.ll' % family)
    defs = ['-DEXCLUDE_INTSET_SUPPORT'] if family[0] != 'O' else []
    cmd = ['clang-14', '-S', '-emit-llvm', opt, '-fno-inline-functions', '-fno-unroll-loops',
           '-fno-vectorize', '-fno-slp-vectorize', '-w'] + defs + [
           '-I' + inc, '-I' + PINC, '-I' + SRC, os.path.join(SRC, '_%sBTree.c' % family), '-o', out]
    r = subprocess.run(cmd, capture_output=True, text=True)
    if r.returncode != 0:
        raise RuntimeError('clang failed: ' + r.stderr[-2000:])
    return out


if __name__ == '__main__':
    d, info = build(sys.argv[1:] or ['OO'])
    print(d, info)
