"""Regenerate MANIFEST.json from the property registry (run by hand after editing props)."""
import json
import os
import sys

VERIF = os.path.dirname(os.path.dirname(os.path.abspath(__file__)))
sys.path.insert(0, VERIF)
ALL = ['C%02d' % i for i in range(1, 20)]

META = json.load(open(os.path.join(VERIF, 'engine', 'manifest_meta.json')))

checks = []
na = []
for pid in ALL:
    m = META.get(pid)
    if not m or m.get('not_applicable'):
        na.append({'property_id': pid, 'reason': (m or {}).get('not_applicable', 'check not built yet')})
        continue
    checks.append({
        'property_id': pid,
        'quick_cmd': './check %s' % pid,
        'thorough_cmd': './check %s --thorough' % pid,
        'evidence_file': '/verif/evidence/%s.json' % pid,
        'replay_cmd_template': './check %s --replay {path}' % pid,
        'engine': m.get('engine', 'E1-crosshair'),
        'level_claimed': {'category': 'other', 'text': m['text'], 'design_ref': m.get('design_ref', 'DESIGN.md section 3, ' + pid)},
        'level_note': m['note'],
        'technique': m.get('technique', 'bounded symbolic execution of the real code (CrossHair + z3), path tree exhausted per obligation'),
    })
man = {
    'version': 1,
    'setup_cmd': './setup.sh',
    'hooks': {
        'guard': 'BTREES_VERIF',
        'enable': 'compile with -DBTREES_VERIF=1 (engine/build.py does this for checks that need the allocation-failure hook; setup.py passes it when the environment variable BTREES_VERIF=1 is set)',
        'baseline_off_cmd': 'cd /repo && /venv/bin/python -m pytest -ra -q -p no:cacheprovider --timeout=900 --continue-on-collection-errors',
        'source_commits': META.get('_hook_commits', []),
        'add_only': True,
    },
    'engines': [
        {'name': 'E1-crosshair', 'path': 'engine/worker.py', 'kind_free_text': 'CrossHair 0.0.110 symbolic execution (z3) of the real compiled C extension and the pure-Python implementation through symbolic key objects; per-obligation path-tree exhaustion',
         'serves_properties': [c['property_id'] for c in checks if 'E1' in c['engine']]},
        {'name': 'E2-llsym', 'path': 'engine/llsym.py', 'kind_free_text': 'clang-14 LLVM IR of the real family sources interpreted symbolically with z3 bit-vectors (native-key kernels)',
         'serves_properties': [c['property_id'] for c in checks if 'E2' in c['engine']]},
    ],
    'checks': checks,
    'not_applicable': na,
    'notes': 'All checks rebuild the extension modules they need from /repo working tree into a scratch directory (removed on exit). Exit 2 = harness error / too many inconclusive obligations (never reported as success). known_findings.json is committed and never written at run time.',
}
json.dump(man, open(os.path.join(VERIF, 'MANIFEST.json'), 'w'), indent=1)
print('checks', [c['property_id'] for c in checks], 'not_applicable', [n['property_id'] for n in na])
