"""Worker process: runs obligations under CrossHair (engine E1) or the IR
interpreter (engine E2), one JSON request per stdin line, one JSON reply per
stdout line.  argv: <scratch dir with the freshly built BTrees package>.
"""
import ast
import importlib
import importlib.util
import json
import os
import re
import sys
import time
import traceback

SCRATCH = sys.argv[1]
sys.path.insert(0, SCRATCH)
sys.path.insert(0, os.path.dirname(os.path.dirname(os.path.abspath(__file__))))

_out = os.fdopen(os.dup(1), 'w')
# anything the code under test prints must not corrupt the protocol
os.dup2(2, 1)
sys.stdout = sys.stderr

STATS = {'checks': 0, 'solver_s': 0.0}


def _instrument_z3():
    import z3
    orig = z3.Solver.check

    def counted(self, *a):
        t0 = time.perf_counter()
        try:
            return orig(self, *a)
        finally:
            STATS['solver_s'] += time.perf_counter() - t0
            STATS['checks'] += 1
    z3.Solver.check = counted


def gen_module(ob):
    """Source text of the obligation: the harness call with explicit symbolic
    arguments and the PEP316 contract CrossHair decides."""
    args = []
    pres = []
    nk = ob.get('nk', 0)
    for i in range(nk):
        args.append('k%d: int' % i)
    if nk > 1:
        pres.append(' < '.join('k%d' % i for i in range(nk)))
    for name, typ in ob.get('args', []):
        args.append('%s: %s' % (name, typ))
    pres.extend(ob.get('pre', []))
    names = [a.split(':')[0] for a in args]
    doc = ''.join('    pre: %s\n' % p for p in pres)
    call = 'H.%s(P, [%s], {%s})' % (
        ob['fn'], ', '.join('k%d' % i for i in range(nk)),
        ', '.join('%r: %s' % (n, n) for n, _ in ob.get('args', [])))
    src = '''
import harness.%(mod)s as H
import harness.keys as _K
P = %(params)r
PATHS = [0]

def ob(%(sig)s) -> bool:
    """
%(doc)s    post: _
    """
    PATHS[0] += 1
    _K.begin_path(%(obid)r, {%(named)s})
    %(call)s
    return True

def twin(%(sig)s) -> bool:
    """
%(doc)s    post: _
    """
    %(call)s
    return False
''' % dict(mod=ob['mod'], params=ob.get('params', {}), sig=', '.join(args), doc=doc, call=call, obid=ob['id'],
            named=', '.join('%r: %s' % (n, n) for n in names))
    return src, names


_CALL_RE = re.compile(r'when calling (?:ob|twin)\((.*)\)\s*$', re.S)


def parse_args(message, names):
    m = _CALL_RE.search(message)
    if not m:
        return None
    try:
        node = ast.parse('f(%s)' % m.group(1), mode='eval').body
        vals = [ast.literal_eval(a) for a in node.args]
        out = dict(zip(names, vals))
        for kw in node.keywords:
            out[kw.arg] = ast.literal_eval(kw.value)
        return out
    except Exception:
        return None


def run_xsym(ob, n):
    from crosshair.core_and_libs import analyze_function, run_checkables, MessageType, AnalysisKind
    from crosshair.options import AnalysisOptionSet
    import harness.common as common
    common.SYMBOLIC = True
    src, names = gen_module(ob)
    path = os.path.join(SCRATCH, 'obs')
    os.makedirs(path, exist_ok=True)
    fn = os.path.join(path, 'ob_%d_%d.py' % (os.getpid(), n))
    with open(fn, 'w') as f:
        f.write(src)
    spec = importlib.util.spec_from_file_location('ob_%d_%d' % (os.getpid(), n), fn)
    mod = importlib.util.module_from_spec(spec)
    sys.modules[spec.name] = mod
    spec.loader.exec_module(mod)
    res = {'id': ob['id'], 'names': names}
    c0, s0 = STATS['checks'], STATS['solver_s']
    t0 = time.time()
    # reachability twin first: must be refuted, and supplies a concrete witness
    topts = AnalysisOptionSet(per_condition_timeout=ob.get('twin_timeout', 30), per_path_timeout=10,
                              report_all=True, analysis_kind=[AnalysisKind.PEP316])
    twin_ok = False
    witness = None
    twin_msg = None
    for m in run_checkables(analyze_function(mod.twin, topts)):
        if m.state == MessageType.POST_FAIL:
            twin_ok = True
            witness = parse_args(m.message, names)
        elif m.state in (MessageType.EXEC_ERR, MessageType.POST_ERR):
            # the harness already fails on the first path the twin tried: the main run will report it
            twin_ok = True
            twin_msg = m.message[:300]
        else:
            twin_msg = '%s %s' % (m.state.name, m.message[:300])
    res['twin_refuted'] = twin_ok
    res['witness'] = witness
    res['twin_s'] = round(time.time() - t0, 2)
    t1 = time.time()
    opts = AnalysisOptionSet(per_condition_timeout=ob.get('timeout', 60),
                             per_path_timeout=ob.get('path_timeout', 20),
                             report_all=True, analysis_kind=[AnalysisKind.PEP316])
    verdict = 'inconclusive'
    detail = None
    cex = None
    msgs = list(run_checkables(analyze_function(mod.ob, opts)))
    for m in msgs:
        if m.state == MessageType.CONFIRMED:
            verdict = 'confirmed'
        elif m.state in (MessageType.EXEC_ERR, MessageType.POST_FAIL, MessageType.POST_ERR):
            verdict = 'counterexample'
            detail = m.message[:600]
            cex = parse_args(m.message, names)
            break
        else:
            detail = '%s %s' % (m.state.name, m.message[:300])
    if not msgs:
        detail = 'no message'
    if verdict == 'confirmed' and not twin_ok:
        verdict = 'inconclusive'
        detail = 'vacuous: reachability twin not refuted (%s)' % twin_msg
    res.update(verdict=verdict, detail=detail, cex=cex, paths=mod.PATHS[0],
               solver_queries=STATS['checks'] - c0, solver_s=round(STATS['solver_s'] - s0, 3),
               wall_s=round(time.time() - t1, 2))
    try:
        os.unlink(fn)
    except OSError:
        pass
    sys.modules.pop(spec.name, None)
    return res


def run_concrete(ob):
    """Replay: plain interpreter semantics, concrete arguments, no CrossHair."""
    mod = importlib.import_module('harness.' + ob['mod'])
    from harness.common import Fail
    import harness.common as common
    common.CONCRETE = True
    a = ob['cex']
    nk = ob.get('nk', 0)
    ks = [a['k%d' % i] for i in range(nk)]
    rest = {n: a[n] for n, _ in ob.get('args', [])}
    try:
        getattr(mod, ob['fn'])(ob.get('params', {}), ks, rest)
    except Fail as e:
        return {'id': ob['id'], 'reproduced': True, 'what': str(e.args[0]), 'detail': [repr(x)[:2000] for x in e.args[1:]]}
    except Exception as e:
        return {'id': ob['id'], 'reproduced': False, 'error': 'harness raised %s: %s' % (type(e).__name__, e),
                'tb': traceback.format_exc()[-1500:]}
    return {'id': ob['id'], 'reproduced': False}


def main():
    _instrument_z3()
    n = 0
    for line in sys.stdin:
        line = line.strip()
        if not line:
            continue
        ob = json.loads(line)
        n += 1
        try:
            if ob.get('engine') == 'concrete':
                res = run_concrete(ob)
            elif ob.get('engine') == 'llsym':
                from engine import llsym_run
                res = llsym_run.run(ob, SCRATCH)
            elif ob.get('engine') == 'direct':
                mod = importlib.import_module('harness.' + ob['mod'])
                res = getattr(mod, ob['fn'])(ob, SCRATCH)
            else:
                res = run_xsym(ob, n)
        except BaseException as e:  # noqa
            res = {'id': ob['id'], 'verdict': 'error', 'detail': '%s: %s' % (type(e).__name__, e),
                   'tb': traceback.format_exc()[-3000:]}
        _out.write(json.dumps(res, default=repr) + '\n')
        _out.flush()


if __name__ == '__main__':
    main()
